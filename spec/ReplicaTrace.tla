---------------------------- MODULE ReplicaTrace ----------------------------
(***************************************************************************)
(* Trace validation for the replica family (C01 C06 C10 C11 C12 C16 C17).  *)
(*                                                                         *)
(* The trace file holds many recorded executions of the real               *)
(* replica.Server (harness layer L0), one ndjson record per call, each     *)
(* starting with an "Init" record.  Every record is consumed in two steps: *)
(*   apply : the Replica action named by the record is taken with the      *)
(*           logged arguments (the specification decides accepted/refused  *)
(*           and the whole successor state);                               *)
(*   cmp   : the logged result and the logged projection of the real state *)
(*           (engine view + independent raw directory scan) are compared   *)
(*           with the specification's state, rule by rule.  Blocks that    *)
(*           the real hole puncher has reclaimed are adopted iff the punch *)
(*           is harmless (changes neither the live image nor any retained  *)
(*           user snapshot) -- which member reclaims what, and when, is    *)
(*           the implementation's business.                                *)
(* A record that fails a rule is written to `failed`; the rest of that     *)
(* execution is skipped (the real state has diverged) and validation       *)
(* continues with the next execution.  The result is written as JSON.      *)
(***************************************************************************)
EXTENDS Replica, Json

CONSTANTS TraceFile, ResultFile

Trace == ndJsonDeserialize(TraceFile)

VARIABLES l, phase, skipping, failed, ntraces, pre

tvars == <<l, phase, skipping, failed, ntraces, pre>>
allvars == <<vars, tvars>>

E == Trace[l]

\* the specification's state before the record's action (to take back a step the
\* implementation refused without any effect)
Snap == [disks |-> disks, headN |-> headN, chain |-> chain, loc |-> loc, snapIdx |-> snapIdx,
         holeQ |-> holeQ, size |-> size, open |-> open, mode |-> mode, rebuilding |-> rebuilding,
         dirty |-> dirty, rev |-> rev, checkpoint |-> checkpoint, punch |-> punch, preload |-> preload,
         cleaner |-> cleaner, lm |-> lm, stale |-> stale, ref |-> ref, usnap |-> usnap]
Restore(p) ==
    /\ disks' = p.disks /\ headN' = p.headN /\ chain' = p.chain /\ loc' = p.loc
    /\ snapIdx' = p.snapIdx /\ holeQ' = p.holeQ /\ size' = p.size /\ open' = p.open
    /\ mode' = p.mode /\ rebuilding' = p.rebuilding /\ dirty' = p.dirty /\ rev' = p.rev
    /\ checkpoint' = p.checkpoint /\ punch' = p.punch /\ preload' = p.preload
    /\ cleaner' = p.cleaner /\ lm' = p.lm /\ stale' = p.stale /\ ref' = p.ref /\ usnap' = p.usnap

InitVals(nb, pu) ==
    [disks |-> [n \in {"h0"} |-> [parent |-> "", user |-> FALSE, removed |-> FALSE,
                                   data |-> EmptyData]],
     size |-> nb, punch |-> pu]

Reset(nb, pu) ==
    /\ disks' = [n \in {"h0"} |-> [parent |-> "", user |-> FALSE, removed |-> FALSE,
                                    data |-> EmptyData]]
    /\ headN' = 0 /\ chain' = <<"h0">> /\ loc' = ZeroLoc /\ snapIdx' = 0 /\ holeQ' = {}
    /\ size' = nb /\ open' = TRUE /\ mode' = "RW" /\ rebuilding' = FALSE /\ dirty' = FALSE
    /\ rev' = 1 /\ checkpoint' = "" /\ preload' = TRUE /\ punch' = pu
    /\ cleaner' = [st |-> "idle", name |-> ""]
    /\ lm' = LmIdle /\ stale' = FALSE
    /\ res' = "ok" /\ out' = <<>> /\ op' = [name |-> "Init"]
    /\ ref' = ZeroImage /\ usnap' = << >>

TInit ==
    /\ Init0(Trace[1].a.nb, Trace[1].a.punch)
    /\ l = 1 /\ phase = "cmp" /\ skipping = FALSE /\ failed = <<>> /\ ntraces = 1
    /\ pre = Snap

PadData(d) == [b \in Blocks |-> IF b + 1 <= Len(d) THEN d[b + 1] ELSE Hole]

\* ---- apply -----------------------------------------------------------------
SpecStep(e) ==
    CASE e.ev = "Write"         -> Write(e.a.s0, e.a.n, e.a.v)
      [] e.ev = "WriteStride"   -> WriteStride(e.a.b0, e.a.step, e.a.count, e.a.v)
      [] e.ev = "Read"          -> Read(e.a.s0, e.a.n)
      [] e.ev = "Snapshot"      -> Snapshot(e.a.name, e.a.user)
      [] e.ev = "PrepareRemove" -> PrepareRemove(e.a.name)
      [] e.ev = "CleanerPick"   ->
            IF open /\ cleaner.st = "idle" /\ Len(e.cand) > 0 /\ e.cand[1] \in Candidates(checkpoint)
            THEN CleanerPick(e.cand[1])
            ELSE /\ Called("CleanerPick", [name |-> "", cp |-> checkpoint])
                 /\ res' = IF open THEN "ok" ELSE "refused"
                 /\ out' = <<>>
                 /\ UNCHANGED <<disks, headN, chain, loc, snapIdx, holeQ, size, open, mode,
                                rebuilding, dirty, rev, checkpoint, punch, preload, lm, stale, cleaner,
                                ref, usnap>>
      [] e.ev = "BurstEnd"      -> /\ Called("BurstEnd", << >>) /\ res' = "ok" /\ out' = <<>>
                                   /\ UNCHANGED <<disks, headN, chain, loc, snapIdx, holeQ, size, open, mode,
                                                  rebuilding, dirty, rev, checkpoint, punch, preload, lm, stale, cleaner,
                                                  ref, usnap>>
      [] e.ev = "CleanerIdle"   -> /\ Called("CleanerIdle", << >>) /\ res' = "ok" /\ out' = <<>>
                                   /\ UNCHANGED <<disks, headN, chain, loc, snapIdx, holeQ, size, open, mode,
                                                  rebuilding, dirty, rev, checkpoint, punch, preload, lm, stale, cleaner,
                                                  ref, usnap>>
      [] e.ev = "Coalesce"      -> Coalesce(e.a.name)
      [] e.ev = "RemoveDisk"    -> RemoveDisk(e.a.name)
      [] e.ev = "Revert"        -> Revert(e.a.name)
      [] e.ev = "Resize"        -> Resize(e.a.nb)
      [] e.ev = "Close"         -> Close
      [] e.ev = "Open"          -> Open
      [] e.ev = "Reload"        -> Reload
      [] e.ev = "SetPreload"    -> SetPreload(e.a.p)
      [] e.ev = "SetPunch"      -> SetPunch(e.a.p)
      [] e.ev = "SetMode"       -> SetMode(e.a.mode)
      [] e.ev = "SetRebuilding" -> SetRebuilding(e.a.r)
      [] e.ev = "SetCheckpoint" -> SetCheckpoint(e.a.name)
      [] e.ev = "SetRev"        -> SetRev(e.a.c)
      [] e.ev = "Unmap"         -> Unmap(e.a.s0, e.a.n)
      [] e.ev = "SyncFile"      -> SyncFile(e.a.name, [parent |-> e.a.parent, user |-> e.a.user,
                                                        removed |-> e.a.removed, data |-> PadData(e.a.data)])
      [] e.ev = "LunMapScan"    -> LunMapScan
      [] e.ev = "LunMapMerge"   -> LunMapMerge
      [] e.ev = "UpdateLUNMap"  -> UpdateLUNMap
      [] e.ev = "ReplaceDisk"   -> ReplaceDisk(e.a.target, e.a.source)
      [] OTHER                  -> FALSE

Fail(rules) ==
    failed' = Append(failed,
        [t |-> E.t, seq |-> E.seq, ev |-> E.ev, a |-> E.a, rules |-> rules,
         logged |-> [res |-> E.res, err |-> E.err, chain |-> E.st.chain, mode |-> E.st.mode, cand |-> E.cand],
         spec |-> [res |-> res, open |-> open, mode |-> mode, chain |-> chain, size |-> size,
                   rev |-> rev, checkpoint |-> checkpoint, head |-> HeadF,
                   users |-> DOMAIN usnap, op |-> op]])

Apply ==
    /\ phase = "apply" /\ l <= Len(Trace)
    /\ IF E.ev = "Init" THEN
            /\ Reset(E.a.nb, E.a.punch)
            /\ phase' = "cmp" /\ skipping' = FALSE /\ ntraces' = ntraces + 1
            /\ UNCHANGED <<l, failed, pre>>
       ELSE IF skipping THEN
            /\ l' = l + 1
            /\ UNCHANGED <<vars, phase, skipping, failed, ntraces, pre>>
       ELSE IF E.ev = "Hang" THEN   \* the engine did not return from a call
            /\ Fail({"Hang"})
            /\ skipping' = TRUE /\ l' = l + 1
            /\ UNCHANGED <<vars, phase, ntraces, pre>>
       ELSE IF ENABLED SpecStep(E) /\ E.partial THEN
            \* one of several concurrent calls: applied, only its result is compared here;
            \* the burst's closing record carries the state
            /\ SpecStep(E)
            /\ pre' = Snap
            /\ l' = l + 1
            /\ IF E.res # res' THEN Fail({"Result"}) /\ skipping' = TRUE
               ELSE UNCHANGED <<failed, skipping>>
            /\ UNCHANGED <<phase, ntraces>>
       ELSE IF ENABLED SpecStep(E) THEN
            /\ SpecStep(E)
            /\ pre' = Snap
            /\ phase' = "cmp"
            /\ UNCHANGED <<l, skipping, failed, ntraces>>
       ELSE \* the specification has no step for this record at all
            /\ Fail({"SpecNotEnabled"})
            /\ skipping' = TRUE /\ l' = l + 1
            /\ UNCHANGED <<vars, phase, ntraces, pre>>

\* ---- compare ---------------------------------------------------------------
ObsData(f, b) == IF b + 1 <= Len(f.data) THEN f.data[b + 1] ELSE Hole
SizeBlocks == {b \in Blocks : b < size}

\* the directory after adopting the harmless holes the real puncher made
Adopted(files) ==
    [n \in DOMAIN disks |->
        IF n \notin DOMAIN files THEN disks[n]
        ELSE [disks[n] EXCEPT !.data =
                [b \in Blocks |->
                    IF b < size /\ ObsData(files[n], b) = Hole /\ disks[n].data[b] # Hole
                       /\ Harmless(chain, disks, usnap, n, b)
                    THEN Hole ELSE disks[n].data[b]]]]

\* Unmap punches the range out of every member above the newest user snapshot AS THE ENGINE
\* COUNTS IT: its index of that snapshot is exact after a load but may be too high in a process
\* that took the snapshots itself or removed members (flags kept one slot to the right, stale
\* index) -- never too low.  So a member the specification unmaps may keep its block: that is
\* adopted (the range is unspecified afterwards anyway); a member the specification protects
\* must not change.
KeptByUnmap(d, files) ==
    IF E.ev # "Unmap" THEN d
    ELSE [n \in DOMAIN d |->
            IF n \notin DOMAIN files \/ n \notin DOMAIN pre.disks THEN d[n]
            ELSE [d[n] EXCEPT !.data =
                    [b \in Blocks |->
                        IF b < size /\ ObsData(files[n], b) # d[n].data[b]
                           /\ ObsData(files[n], b) = pre.disks[n].data[b]
                        THEN pre.disks[n].data[b] ELSE d[n].data[b]]]]

ExpectedRead(s0, n) == [k \in 1..n |-> ref[BlkOf(s0 + k - 1)][IdxIn(s0 + k - 1)]]
\* sectors the reference leaves unspecified (after an Unmap) match anything
ReadAgrees(o, s0, n) == /\ Len(o) = n
                        /\ \A k \in 1..n : ExpectedRead(s0, n)[k] = Wild \/ o[k] = ExpectedRead(s0, n)[k]

Rules(e, d2) ==
    LET st    == e.st
        files == st.dir.files
        common == DOMAIN files \cap DOMAIN disks
    IN
    (IF e.res # res THEN {"Result"} ELSE {})
    \cup (IF st.open # open THEN {"Open"} ELSE {})
    \cup (IF st.mode # mode THEN {"Mode"} ELSE {})
    \cup (IF st.size # size \/ st.dir.size # size THEN {"Size"} ELSE {})
    \cup (IF ~st.dir.metaok THEN {"VolumeMeta"} ELSE {})
    \cup (IF st.dir.head # HeadF THEN {"Head"} ELSE {})
    \cup (IF open /\ st.open /\ st.chain # chain THEN {"Chain"} ELSE {})
    \cup (IF open /\ st.open /\ ~stale /\
             (\/ DOMAIN st.eng # Range(chain)
              \/ \E n \in DOMAIN st.eng \cap DOMAIN disks :
                    \/ st.eng[n].parent # disks[n].parent
                    \/ st.eng[n].user # disks[n].user
                    \/ st.eng[n].removed # disks[n].removed)
          THEN {"EngineDisks"} ELSE {})
    \* the engine's cached "parent of the head" (Info.Parent: guards the latest snapshot, is
    \* reported and persisted) names the member below the head
    \cup (IF open /\ st.open /\ "eparent" \in DOMAIN st /\ st.eparent # disks[chain[Len(chain)]].parent
          THEN {"HeadParent"} ELSE {})
    \* the plan PrepareRemoveDisk hands to its callers folds the snapshot into the member directly
    \* below it (anything else changes what the members in between, or the live volume, read)
    \cup (IF e.ev = "PrepareRemove" /\ e.res = "ok" /\ res = "ok" /\ "plan" \in DOMAIN e.x /\
             \E i \in 1..Len(e.x.plan) : /\ e.x.plan[i][1] = "coalesce"
                                         /\ e.x.plan[i][2] \in DOMAIN disks
                                         /\ e.x.plan[i][3] # disks[e.x.plan[i][2]].parent
          THEN {"PlanTarget"} ELSE {})
    \cup (IF DOMAIN files # DOMAIN disks THEN {"DirNames"} ELSE {})
    \cup (IF \E n \in common : \/ files[n].parent # disks[n].parent
                               \/ files[n].user # disks[n].user
                               \/ files[n].removed # disks[n].removed
          THEN {"DirMeta"} ELSE {})
    \cup (IF \E n \in common : \E b \in SizeBlocks : ObsData(files[n], b) # d2[n].data[b]
          THEN {"DirData"} ELSE {})
    \cup (IF st.dir.rev # rev \/ (st.open /\ st.revcache # rev) THEN {"Rev"} ELSE {})
    \cup (IF st.dir.cp # checkpoint THEN {"Checkpoint"} ELSE {})
    \cup (IF st.dir.rebuilding # rebuilding THEN {"Rebuilding"} ELSE {})
    \cup (IF e.ev = "Read" /\ res = "ok" /\ e.res = "ok" /\ ~ReadAgrees(e.out, e.a.s0, e.a.n) /\ ~stale
          THEN {"ReadData"} ELSE {})
    \cup (IF e.ev = "CleanerPick" /\ open /\ e.res = "ok" /\ Range(e.cand) # Candidates(checkpoint)
          THEN {"Candidates"} ELSE {})
    \* concurrency observations
    \cup (IF e.ev = "BurstEnd" /\ e.x.backwards > 0 THEN {"RevBackwards"} ELSE {})
    \cup (IF e.ev = "Open" /\ "oks" \in DOMAIN e.x /\ e.x.oks > 1 THEN {"OpenTwice"} ELSE {})
    \cup (IF e.ev = "Open" /\ "oldlive" \in DOMAIN e.x /\ e.x.oldlive THEN {"OpenTwice"} ELSE {})
    \* the properties themselves, evaluated on the adopted directory
    \cup (IF open /\ ~stale /\ \E b \in SizeBlocks : ~Agree(ImageAt(chain, d2, Len(chain))[b], ref[b])
          THEN {"LiveIsRef"} ELSE {})
    \cup (IF open /\ ~stale /\ \E u \in DOMAIN usnap :
                \/ IdxOf(chain, u) = 0
                \/ \E b \in SizeBlocks : ~Agree(ImageAt(chain, d2, IdxOf(chain, u))[b], usnap[u][b])
          THEN {"UserSnapImmutable"} ELSE {})

\* A management call the specification would have accepted but the implementation
\* refused: not a violation of any listed property as long as the refusal had no
\* effect at all -- the specification takes its step back and the record is compared
\* with the state before it (phase "cmp2", without the Result rule).
Refusable == {"Snapshot", "PrepareRemove", "RemoveDisk", "Revert", "Resize", "SetRebuilding",
              "SetCheckpoint", "SetRev", "Open", "Reload", "ReplaceDisk"}

Compare ==
    /\ phase \in {"cmp", "cmp2"} /\ l <= Len(Trace)
    /\ IF phase = "cmp" /\ E.res = "refused" /\ res = "ok" /\ E.ev \in Refusable
       THEN /\ Restore(pre)
            /\ phase' = "cmp2"
            /\ UNCHANGED <<l, failed, skipping, ntraces, pre, res, out, op>>
       ELSE /\ LET d2 == KeptByUnmap(Adopted(E.st.dir.files), E.st.dir.files)
                   rs == Rules(E, d2) \ (IF phase = "cmp2" THEN {"Result"} ELSE {})
               IN /\ disks' = d2
                  /\ holeQ' = {}
                  /\ IF rs = {} THEN UNCHANGED <<failed, skipping>>
                     ELSE Fail(rs) /\ skipping' = TRUE
            /\ l' = l + 1 /\ phase' = "apply"
            /\ UNCHANGED <<headN, chain, loc, snapIdx, size, open, mode, rebuilding, dirty, rev,
                           checkpoint, punch, preload, lm, stale, cleaner, res, out, op, ref, usnap, ntraces, pre>>

TNext == Apply \/ Compare
TSpec == TInit /\ [][TNext]_allvars

\* ---- result ------------------------------------------------------------------
Done == l = Len(Trace) + 1
Finish == Done => JsonSerialize(ResultFile,
                     [consumed |-> l - 1, records |-> Len(Trace), traces |-> ntraces,
                      failed |-> failed])

\* design-level sanity of the specification's own block map on every visited
\* state (a failure here is a defect of the specification, not of the code)
SpecSane == skipping \/ phase = "cmp" \/ (ReadBack /\ LocSound /\ ChainWF /\ PunchSafe)
=============================================================================
