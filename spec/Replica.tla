------------------------------- MODULE Replica -------------------------------
(***************************************************************************)
(* One jiva replica: a chain of sparse files (base ... latest snapshot,    *)
(* head), the in-memory block map, the asynchronous hole puncher, the      *)
(* server/replica modes and the persisted counters.                        *)
(*                                                                         *)
(* One action per replica.Server method (= one acquisition of              *)
(* Server.RWMutex); the hole-puncher goroutine (CreateHoles) and the       *)
(* out-of-process coalesce (sfold) are separate actions.  DESIGN.md 3.1.   *)
(*                                                                         *)
(* Names: the head file volume-head-00n.img is "h<n>", the snapshot file   *)
(* volume-snap-<x>.img is "s-<x>".                                         *)
(***************************************************************************)
EXTENDS Integers, Sequences, FiniteSets, TLC

CONSTANTS
    MaxNB,      \* array bound: largest volume size in 4 KiB blocks
    SPB,        \* 512-byte sectors per block (8 in the code, 2 in exhaustive runs)
    Bug         \* set of strings: as-coded deviations switched on (mutant configs)

VARIABLES
    disks,      \* directory: file name |-> [parent, user, removed, data]
    headN,      \* index n of the head named by volume.meta
    chain,      \* open replica's view, base .. head (sequence of names)
    loc,        \* [Blocks -> 0..Len(chain)]  (diffDisk.location, 0 = unknown)
    snapIdx,    \* diffDisk.SnapIndx
    holeQ,      \* pending punches: set of <<name, block>>
    size,       \* volume size in blocks
    open,       \* Server.r # nil
    mode,       \* "INIT" "RW" "WO" "CLOSED"
    rebuilding, \* Info.Rebuilding
    dirty,      \* Info.Dirty (in memory)
    rev,        \* revision.counter
    checkpoint, \* Info.Checkpoint
    punch,      \* types.ShouldPunchHoles
    preload,    \* Server.preload
    cleaner,    \* background cleaner / delete flow: [st, name]
    lm,         \* UpdateLUNMap in progress: [st, pre, files, uidx] (between its two locked sections)
    stale,      \* files were replaced under the open replica (rebuild sync); cleared by the next load
    res,        \* result class of the last call: "ok" | "refused"
    out,        \* output of the last call (read data)
    op,         \* the last call (name + arguments) -- observation only
    ref,        \* HISTORY: image defined by "last successful write wins"
    usnap       \* HISTORY: retained user snapshot |-> image when it was taken

vars == <<disks, headN, chain, loc, snapIdx, holeQ, size, open, mode, rebuilding,
          dirty, rev, checkpoint, punch, preload, cleaner, lm, stale, res, out, op, ref, usnap>>

persistent == <<disks, headN, size, rebuilding, rev, checkpoint>>

-----------------------------------------------------------------------------
Hole      == <<>>
Blocks    == 0..(MaxNB - 1)
ZeroBlock == [i \in 1..SPB |-> 0]
EmptyData == [b \in Blocks |-> Hole]
ZeroLoc   == [b \in Blocks |-> 0]
ZeroImage == [b \in Blocks |-> ZeroBlock]
LmIdle    == [st |-> "idle"]

\* A sector of the reference image is -1 after an Unmap: its content is unspecified
\* until the next write (it may read as zeros or as what an older member holds).
Wild == -1
Agree(x, r) == \A i \in 1..SPB : r[i] = Wild \/ x[i] = r[i]
Mask(x, r)  == [i \in 1..SPB |-> IF r[i] = Wild THEN Wild ELSE x[i]]

HeadName(n) == "h" \o ToString(n)
HeadF        == HeadName(headN)

SetMax(S) == CHOOSE x \in S : \A y \in S : y <= x
SetMin(S) == CHOOSE x \in S : \A y \in S : x <= y

IdxOf(ch, n) == IF \E i \in 1..Len(ch) : ch[i] = n
                THEN CHOOSE i \in 1..Len(ch) : ch[i] = n ELSE 0
InChain(n)   == IdxOf(chain, n) # 0
SeqRemove(s, i) == [j \in 1..(Len(s) - 1) |-> IF j < i THEN s[j] ELSE s[j + 1]]
Range(s) == {s[i] : i \in 1..Len(s)}

\* ---- images ---------------------------------------------------------------
Holds(d, n, b) == n \in DOMAIN d /\ d[n].data[b] # Hole

\* highest member with index <= k that holds block b, 0 if none
HolderUpTo(ch, d, k, b) ==
    LET S == {i \in 1..k : Holds(d, ch[i], b)} IN IF S = {} THEN 0 ELSE SetMax(S)

ImageAt(ch, d, k) ==
    [b \in Blocks |-> LET i == HolderUpTo(ch, d, k, b)
                      IN IF i = 0 THEN ZeroBlock ELSE d[ch[i]].data[b]]

Live == ImageAt(chain, disks, Len(chain))

\* the retained user snapshots of a chain and their images (taken from the files)
UserImages(ch, d) ==
    [u \in {ch[i] : i \in {k \in 1..Len(ch) : d[ch[k]].user /\ ~d[ch[k]].removed}} |->
        ImageAt(ch, d, IdxOf(ch, u))]

\* the parent walk of readMetadata/openLiveChain: base .. n
RECURSIVE PathTo(_, _)
PathTo(d, n) == IF n \notin DOMAIN d THEN <<>>
                ELSE IF d[n].parent = "" THEN <<n>>
                ELSE Append(PathTo(d, d[n].parent), n)

LastUserIdx(ch, d) ==
    LET S == {i \in 1..Len(ch) : d[ch[i]].user} IN IF S = {} THEN 0 ELSE SetMax(S)

\* is the parent walk from n well-founded (every member present, no cycle)?
RECURSIVE WalkOK(_, _, _)
WalkOK(d, n, k) == IF k = 0 \/ n \notin DOMAIN d THEN FALSE
                   ELSE IF d[n].parent = "" THEN TRUE
                   ELSE WalkOK(d, d[n].parent, k - 1)
LoadOK(d, hn) == WalkOK(d, HeadName(hn), Cardinality(DOMAIN d))

\* ---- lookup / read through the block map (diffDisk.lookup, fullReadAt) ----
LookupT(ch, d, lc, b) ==
    IF Len(ch) = 1 THEN 1
    ELSE IF lc[b] # 0 THEN lc[b]
    ELSE LET S == {i \in 2..Len(ch) : Holds(d, ch[i], b)}
         IN IF S = {} THEN 1 ELSE SetMax(S)

ReadBlockVia(ch, d, lc, b) ==
    LET t == LookupT(ch, d, lc, b)
    IN IF Holds(d, ch[t], b) THEN d[ch[t]].data[b] ELSE ZeroBlock

ReadBlock(b) == ReadBlockVia(chain, disks, loc, b)

\* lookups cache what they found (not for a chain of one file)
CacheLookups(ch, d, lc, B) ==
    IF Len(ch) = 1 THEN lc
    ELSE [b \in Blocks |-> IF b \in B /\ lc[b] = 0 THEN LookupT(ch, d, lc, b) ELSE lc[b]]

\* ---- preload (replica.preload) --------------------------------------------
PreloadLoc(ch, d, nb) ==
    [b \in Blocks |-> IF b < nb THEN HolderUpTo(ch, d, Len(ch), b) ELSE 0]

\* running newest-user-snapshot rule of preload(): while file i is scanned an
\* older owner j of the same block is punched iff j is above every user
\* snapshot with index <= i
UserUpTo(ch, d, i) ==
    LET S == {k \in 1..i : d[ch[k]].user} IN IF S = {} THEN 0 ELSE SetMax(S)

PreloadHolesP(ch, d, nb, p) ==
    IF ~p THEN {}
    ELSE {e \in (Range(ch) \X Blocks) :
            LET j == IdxOf(ch, e[1])
                b == e[2]
                S == {i \in (j + 1)..Len(ch) : Holds(d, ch[i], b)}
            IN  /\ b < nb
                /\ Holds(d, e[1], b)
                /\ S # {}
                /\ j > UserUpTo(ch, d, SetMin(S))}
PreloadHoles(ch, d, nb) == PreloadHolesP(ch, d, nb, punch)

\* ---- when is a punch harmless? --------------------------------------------
\* Punching block b out of member i changes neither the live image nor the
\* image of any retained user snapshot iff a newer member j holds b and no
\* retained user snapshot lies in i .. j-1.
Retained(n) == n \in DOMAIN usnap
Harmless(ch, d, us, n, b) ==
    LET i == IdxOf(ch, n) IN
    \/ ~Holds(d, n, b)
    \/ i = 0                      \* not in the live chain (orphan after revert)
    \/ LET S == {j \in (i + 1)..Len(ch) : Holds(d, ch[j], b)}
       IN S # {} /\ \A u \in i..(SetMin(S) - 1) : ch[u] \notin DOMAIN us

-----------------------------------------------------------------------------
\* sector arithmetic for Write / Read
BlkOf(s) == s \div SPB
IdxIn(s) == (s % SPB) + 1
Touched(s0, n) == BlkOf(s0)..BlkOf(s0 + n - 1)
FullyCovered(b, s0, n) == s0 <= b * SPB /\ (b + 1) * SPB <= s0 + n

Overlay(img, s0, n, v) ==
    [b \in Blocks |-> [i \in 1..SPB |->
        LET s == b * SPB + (i - 1) IN IF s >= s0 /\ s < s0 + n THEN v ELSE img[b][i]]]

\* ---- punch requests of one diffDisk.WriteAt call --------------------------
\* previous owner as fullWriteAt sees it: the read-modify-write of a partial
\* block has cached the looked-up owner before fullWriteAt runs
PrevOwner(b, s0, n) ==
    IF FullyCovered(b, s0, n) \/ Len(chain) = 1 THEN loc[b]
    ELSE LookupT(chain, disks, loc, b)

\* The three fullWriteAt calls of one WriteAt: leading partial block,
\* run of full blocks, trailing partial block (each is a sequence of blocks)
WriteCalls(s0, n) ==
    LET bs == Touched(s0, n)
        full == {b \in bs : FullyCovered(b, s0, n)}
        lead == {b \in bs : ~FullyCovered(b, s0, n) /\ b = BlkOf(s0)}
        trail == {b \in bs : ~FullyCovered(b, s0, n) /\ b # BlkOf(s0)}
    IN <<lead, full, trail>>

\* intended rule: each block's previous owner o (known, not the head, above
\* every user snapshot) loses the block
IntendedHoles(s0, n) ==
    LET T == Len(chain) IN
    {<<chain[PrevOwner(b, s0, n)], b>> : b \in
        {bb \in Touched(s0, n) : LET o == PrevOwner(bb, s0, n)
                                 IN o # 0 /\ o # T /\ o > snapIdx}}

\* as coded today ("punchWrongOwner"): when a run of equal owners ends because
\* the next block has another owner, the punch for the finished run is sent to
\* the file of the *next* block (d.files[val]); only the last run of a call is
\* addressed correctly.
RECURSIVE CodedRun(_, _, _, _, _, _)
\* bs: blocks of one fullWriteAt call still to process (ascending), fi/lo/len:
\* current run (fi = 0: none)
CodedRun(bs, fi, lo, len, s0, n) ==
    IF bs = {} THEN
        IF fi # 0 /\ fi > snapIdx THEN {<<chain[fi], bb>> : bb \in lo..(lo + len - 1)} ELSE {}
    ELSE
        LET b == SetMin(bs)
            o == PrevOwner(b, s0, n)
            T == Len(chain)
        IN IF o = 0 \/ o = T THEN CodedRun(bs \ {b}, fi, lo, len, s0, n)
           ELSE IF o # fi \/ b # lo + len
                THEN (IF fi # 0 /\ fi > snapIdx
                        THEN {<<chain[o], bb>> : bb \in lo..(lo + len - 1)} ELSE {})
                     \cup CodedRun(bs \ {b}, o, b, 1, s0, n)
                ELSE CodedRun(bs \ {b}, fi, lo, len + 1, s0, n)

CodedHoles(s0, n) ==
    LET c == WriteCalls(s0, n)
    IN CodedRun(c[1], 0, 0, 0, s0, n) \cup CodedRun(c[2], 0, 0, 0, s0, n)
       \cup CodedRun(c[3], 0, 0, 0, s0, n)

WriteHoles(s0, n) ==
    IF ~punch THEN {}
    ELSE IF "punchWrongOwner" \in Bug THEN CodedHoles(s0, n) ELSE IntendedHoles(s0, n)

-----------------------------------------------------------------------------
TypeOK ==
    /\ open \in BOOLEAN /\ punch \in BOOLEAN /\ preload \in BOOLEAN
    /\ mode \in {"INIT", "RW", "WO", "CLOSED"}
    /\ size \in 1..MaxNB
    /\ res \in {"ok", "refused"}

Init0(nb, pu) ==
    /\ disks = [n \in {"h0"} |-> [parent |-> "", user |-> FALSE, removed |-> FALSE,
                                   data |-> EmptyData]]
    /\ headN = 0
    /\ chain = <<"h0">>
    /\ loc = ZeroLoc
    /\ snapIdx = 0
    /\ holeQ = {}
    /\ size = nb
    /\ open = TRUE
    /\ mode = "RW"
    /\ rebuilding = FALSE
    /\ dirty = FALSE
    /\ rev = 1
    /\ checkpoint = ""
    /\ preload = TRUE
    /\ punch = pu
    /\ cleaner = [st |-> "idle", name |-> ""]
    /\ lm = LmIdle
    /\ stale = FALSE
    /\ res = "ok"
    /\ out = <<>>
    /\ op = [name |-> "Init"]
    /\ ref = ZeroImage
    /\ usnap = << >>

-----------------------------------------------------------------------------
\* Every call first records itself
Called(name, args) == op' = [name |-> name, args |-> args]

Refuse == /\ res' = "refused" /\ out' = <<>>
          /\ UNCHANGED <<disks, headN, chain, loc, snapIdx, holeQ, size, open, mode,
                         rebuilding, dirty, rev, checkpoint, punch, preload, lm, stale, cleaner,
                         ref, usnap>>

\* ---- data path --------------------------------------------------------------
\* Server.WriteAt -> Replica.WriteAt -> diffDisk.WriteAt; s0, n in sectors
WriteOK == open /\ mode \in {"RW", "WO"}

Write(s0, n, v) ==
    /\ Called("Write", [s0 |-> s0, n |-> n, v |-> v])
    /\ n > 0 /\ s0 >= 0 /\ s0 + n <= size * SPB
    /\ IF ~open \/ (~WriteOK /\ "writeInAnyMode" \notin Bug) THEN Refuse
       ELSE
        LET T   == Len(chain)
            B   == Touched(s0, n)
            \* content of the touched blocks: read-modify-write through the map
            cur == [b \in Blocks |-> IF b \in B /\ ~FullyCovered(b, s0, n)
                                      THEN ReadBlock(b) ELSE ZeroBlock]
            new == Overlay(cur, s0, n, v)
        IN  /\ disks' = [disks EXCEPT ![chain[T]].data =
                            [b \in Blocks |-> IF b \in B THEN new[b] ELSE @[b]]]
            /\ loc' = [b \in Blocks |-> IF b \in B THEN T ELSE loc[b]]
            /\ holeQ' = holeQ \cup WriteHoles(s0, n)
            /\ rev' = IF mode = "RW" THEN rev + 1 ELSE rev
            /\ dirty' = TRUE
            /\ ref' = Overlay(ref, s0, n, v)
            /\ res' = IF WriteOK THEN "ok" ELSE "refused"
            /\ out' = <<>>
            /\ UNCHANGED <<headN, chain, snapIdx, size, open, mode, rebuilding,
                           checkpoint, punch, preload, lm, stale, cleaner, usnap>>

\* A driver loop of `count` aligned whole-block writes at blocks b0, b0+step, ... recorded as
\* ONE step (files fragmented into thousands of extents without thousands of records).  The
\* blocks are distinct and fully covered, so the single writes do not interact: each behaves
\* as Write(b * SPB, SPB, v).
WriteStride(b0, step, count, v) ==
    /\ Called("WriteStride", [b0 |-> b0, step |-> step, count |-> count, v |-> v])
    /\ count > 0 /\ step > 0 /\ b0 >= 0 /\ b0 + (count - 1) * step < size
    /\ IF ~open \/ (~WriteOK /\ "writeInAnyMode" \notin Bug) THEN Refuse
       ELSE
        LET T    == Len(chain)
            B    == {b0 + i * step : i \in 0..(count - 1)}
            full == [k \in 1..SPB |-> v]
        IN  /\ disks' = [disks EXCEPT ![chain[T]].data =
                            [b \in Blocks |-> IF b \in B THEN full ELSE @[b]]]
            /\ loc' = [b \in Blocks |-> IF b \in B THEN T ELSE loc[b]]
            /\ holeQ' = holeQ \cup UNION {WriteHoles(b * SPB, SPB) : b \in B}
            /\ rev' = IF mode = "RW" THEN rev + count ELSE rev
            /\ dirty' = TRUE
            /\ ref' = [b \in Blocks |-> IF b \in B THEN full ELSE ref[b]]
            /\ res' = IF WriteOK THEN "ok" ELSE "refused"
            /\ out' = <<>>
            /\ UNCHANGED <<headN, chain, snapIdx, size, open, mode, rebuilding,
                           checkpoint, punch, preload, lm, stale, cleaner, usnap>>

\* Server.ReadAt: served in any mode while open; the lookups are cached
Read(s0, n) ==
    /\ Called("Read", [s0 |-> s0, n |-> n])
    /\ n > 0 /\ s0 >= 0 /\ s0 + n <= size * SPB
    /\ IF ~open THEN Refuse
       ELSE /\ out' = [k \in 1..n |-> ReadBlock(BlkOf(s0 + k - 1))[IdxIn(s0 + k - 1)]]
            /\ loc' = CacheLookups(chain, disks, loc, Touched(s0, n))
            /\ res' = "ok"
            /\ UNCHANGED <<disks, headN, chain, snapIdx, holeQ, size, open, mode,
                           rebuilding, dirty, rev, checkpoint, punch, preload, lm, stale, cleaner,
                           ref, usnap>>

\* Server.Unmap -> Replica.Unmap -> diffDisk.Unmap: the byte range is punched out of
\* every member above the newest user snapshot, the head included; the block map is
\* not touched and there is no mode check.  A fully covered block is deallocated, a
\* partly covered one keeps its extent with the covered sectors zeroed.  What the
\* range reads afterwards is unspecified (zeros through the map, possibly an older
\* member's data after the next load): the reference image gets wildcards.
UnmapBlock(blk, b, s0, n) ==
    IF blk = Hole \/ FullyCovered(b, s0, n) THEN Hole
    ELSE [i \in 1..SPB |-> LET s == b * SPB + (i - 1)
                           IN IF s >= s0 /\ s < s0 + n THEN 0 ELSE blk[i]]

Unmap(s0, n) ==
    /\ Called("Unmap", [s0 |-> s0, n |-> n])
    /\ n > 0 /\ s0 >= 0 /\ s0 + n <= size * SPB
    /\ IF ~open THEN Refuse
       ELSE LET B == Touched(s0, n)
                above == IF "unmapAllFiles" \in Bug THEN Range(chain)
                         ELSE {chain[i] : i \in (snapIdx + 1)..Len(chain)}
            IN  /\ disks' = [m \in DOMAIN disks |->
                               IF m \in above
                               THEN [disks[m] EXCEPT !.data =
                                       [b \in Blocks |-> IF b \in B THEN UnmapBlock(@[b], b, s0, n)
                                                         ELSE @[b]]]
                               ELSE disks[m]]
                /\ dirty' = TRUE
                /\ ref' = Overlay(ref, s0, n, Wild)
                /\ res' = "ok" /\ out' = <<>>
                /\ UNCHANGED <<headN, chain, loc, snapIdx, holeQ, size, open, mode, rebuilding,
                               rev, checkpoint, punch, preload, cleaner, lm, stale, usnap>>

\* ---- chain management -------------------------------------------------------
SnapFile(x) == "s-" \o x

\* Server.Snapshot -> createDisk: the head becomes snapshot s-x, a new empty
\* head is stacked on top
Snapshot(x, user) ==
    /\ Called("Snapshot", [name |-> x, user |-> user])
    /\ IF ~open \/ (SnapFile(x) \in DOMAIN disks /\ "dupSnapshotClobbers" \notin Bug)
       THEN Refuse
       ELSE
        LET s  == SnapFile(x)
            oh == HeadF
            nh == HeadName(headN + 1)
            T  == Len(chain)
            d1 == [n \in (DOMAIN disks \ {oh}) \cup {s, nh} |->
                    IF n = s THEN [disks[oh] EXCEPT !.user = user, !.removed = FALSE]
                    ELSE IF n = nh THEN [parent |-> s, user |-> FALSE, removed |-> FALSE,
                                         data |-> EmptyData]
                    ELSE disks[n]]
        IN  IF SnapFile(x) \in DOMAIN disks
            THEN \* as coded: the failed link's clean-up unlinks the existing snapshot
                 /\ disks' = [n \in DOMAIN disks \ {s} |-> disks[n]]
                 /\ res' = "refused" /\ out' = <<>>
                 /\ UNCHANGED <<headN, chain, loc, snapIdx, holeQ, size, open, mode,
                                rebuilding, dirty, rev, checkpoint, punch, preload, lm, stale,
                                cleaner, ref, usnap>>
            ELSE
            /\ disks' = d1
            /\ headN' = headN + 1
            /\ chain' = Append([chain EXCEPT ![T] = s], nh)
            /\ snapIdx' = IF user THEN T ELSE snapIdx
            /\ usnap' = IF user THEN [n \in DOMAIN usnap \cup {s} |->
                                        IF n = s THEN [b \in Blocks |-> Mask(Live[b], ref[b])]
                                        ELSE usnap[n]]
                        ELSE usnap
            /\ dirty' = TRUE
            /\ res' = "ok" /\ out' = <<>>
            /\ UNCHANGED <<loc, holeQ, size, open, mode, rebuilding, rev, checkpoint,
                           punch, preload, lm, stale, cleaner, ref>>

\* Server.PrepareRemoveDisk: mark a snapshot as removed.  n is a file name.
Protected(n) == \/ n = HeadF
                \/ (Len(chain) >= 2 /\ n = chain[Len(chain) - 1])
                \/ (Len(chain) >= 1 /\ n = chain[1])

PrepareRemove(n) ==
    /\ Called("PrepareRemove", [name |-> n])
    /\ IF ~open \/ mode # "RW" THEN Refuse
       ELSE IF ~InChain(n) THEN     \* unknown name: silent no-op
            /\ res' = "ok" /\ out' = <<>>
            /\ UNCHANGED <<disks, headN, chain, loc, snapIdx, holeQ, size, open, mode,
                           rebuilding, dirty, rev, checkpoint, punch, preload, lm, stale, cleaner,
                           ref, usnap>>
       ELSE IF Protected(n) THEN Refuse
       ELSE /\ disks' = [disks EXCEPT ![n].removed = TRUE]
            /\ usnap' = [u \in DOMAIN usnap \ {n} |-> usnap[u]]
            /\ cleaner' = IF cleaner.st = "picked" /\ cleaner.name = n
                          THEN [st |-> "prepared", name |-> n] ELSE cleaner
            /\ res' = "ok" /\ out' = <<>>
            /\ UNCHANGED <<headN, chain, loc, snapIdx, holeQ, size, open, mode,
                           rebuilding, dirty, rev, checkpoint, punch, preload, lm, stale, ref>>

\* The deletion candidates of sync.GetDeleteCandidateChain (as a set)
Candidates(cp) ==
    LET T == Len(chain)
        ci == IdxOf(chain, cp)
    IN IF T <= 3 \/ cp = "" \/ ci = 0 \/ ci <= 2 THEN {}
       ELSE {chain[i] : i \in {k \in 2..(ci - 1) :
                /\ ~(disks[chain[k]].user /\ ~disks[chain[k]].removed)
                /\ ~(disks[chain[k - 1]].user /\ ~disks[chain[k - 1]].removed)}}

\* the background cleaner picks a candidate (any: the size order is a heuristic)
CleanerPick(n) ==
    /\ Called("CleanerPick", [name |-> n, cp |-> checkpoint])
    /\ open /\ cleaner.st = "idle"
    /\ n \in Candidates(checkpoint)
    /\ cleaner' = [st |-> "picked", name |-> n]
    /\ res' = "ok" /\ out' = <<>>
    /\ UNCHANGED <<disks, headN, chain, loc, snapIdx, holeQ, size, open, mode, rebuilding,
                   dirty, rev, checkpoint, punch, preload, lm, stale, ref, usnap>>

\* sfold child -> parent, out of process, no lock: every block the child holds
\* overwrites the parent's
Coalesce(n) ==
    /\ Called("Coalesce", [name |-> n])
    /\ InChain(n) /\ IdxOf(chain, n) >= 2
    /\ LET p == chain[IdxOf(chain, n) - 1]
       IN disks' = [disks EXCEPT ![p].data =
                      [b \in Blocks |-> IF disks[n].data[b] # Hole THEN disks[n].data[b] ELSE @[b]]]
    /\ cleaner' = IF cleaner.st = "prepared" /\ cleaner.name = n
                  THEN [st |-> "folded", name |-> n] ELSE cleaner
    /\ res' = "ok" /\ out' = <<>>
    /\ UNCHANGED <<headN, chain, loc, snapIdx, holeQ, size, open, mode, rebuilding,
                   dirty, rev, checkpoint, punch, preload, lm, stale, ref, usnap>>

\* Server.RemoveDiffDisk
RemoveDisk(n) ==
    /\ Called("RemoveDisk", [name |-> n])
    /\ IF ~open \/ mode # "RW" THEN Refuse
       ELSE IF n = HeadF \/ (Len(chain) >= 2 /\ n = chain[Len(chain) - 1]) THEN Refuse
       ELSE IF InChain(n) /\ n = chain[1] /\ "removeBase" \notin Bug THEN Refuse
       ELSE IF ~InChain(n) THEN
            \* not in the live chain: the files (an orphan's, or leftovers) are unlinked
            /\ disks' = [m \in DOMAIN disks \ {n} |-> disks[m]]
            /\ holeQ' = {}
            /\ res' = "ok" /\ out' = <<>>
            /\ UNCHANGED <<headN, chain, loc, snapIdx, size, open, mode, rebuilding,
                           dirty, rev, checkpoint, punch, preload, lm, stale, cleaner, ref, usnap>>
       ELSE
        LET i   == IdxOf(chain, n)
            c   == chain[i + 1]
            ch2 == SeqRemove(chain, i)
            d2  == [m \in DOMAIN disks \ {n} |->
                      IF m = c THEN [disks[m] EXCEPT !.parent = disks[n].parent] ELSE disks[m]]
            lu  == LastUserIdx(ch2, d2)
        IN  /\ disks' = d2
            /\ chain' = ch2
            /\ loc' = [b \in Blocks |-> IF loc[b] >= i THEN loc[b] - 1 ELSE loc[b]]
            /\ snapIdx' = IF lu # 0 THEN lu ELSE snapIdx    \* stale when none is left
            /\ holeQ' = {}                                  \* drained (dropped)
            /\ usnap' = [u \in DOMAIN usnap \ {n} |-> usnap[u]]
            /\ cleaner' = IF cleaner.name = n THEN [st |-> "idle", name |-> ""] ELSE cleaner
            /\ res' = "ok" /\ out' = <<>>
            /\ UNCHANGED <<headN, size, open, mode, rebuilding, dirty, rev, checkpoint,
                           punch, preload, lm, stale, ref>>

\* common part of construct(): parent walk + optional preload
Loaded(d, hn, pl, nb) ==
    LET ch == PathTo(d, HeadName(hn))
    IN [chain |-> ch,
        loc |-> IF pl THEN PreloadLoc(ch, d, nb) ELSE ZeroLoc,
        snapIdx |-> LastUserIdx(ch, d),
        holes |-> IF pl THEN PreloadHoles(ch, d, nb) ELSE {}]

\* Server.Revert(n): new head on top of n, old head unlinked, reload with preload
Revert(n) ==
    /\ Called("Revert", [name |-> n])
    /\ IF ~open \/ n \notin DOMAIN disks \/ n = HeadF
          \/ ~WalkOK(disks, n, Cardinality(DOMAIN disks)) THEN Refuse
       ELSE
        LET nh == HeadName(headN + 1)
            d2 == [m \in (DOMAIN disks \ {HeadF}) \cup {nh} |->
                     IF m = nh THEN [parent |-> n, user |-> FALSE, removed |-> FALSE,
                                     data |-> EmptyData]
                     ELSE disks[m]]
            L  == Loaded(d2, headN + 1, TRUE, size)
        IN  /\ disks' = d2
            /\ headN' = headN + 1
            /\ chain' = L.chain
            /\ loc' = L.loc
            /\ snapIdx' = L.snapIdx
            /\ holeQ' = holeQ \cup L.holes
            /\ ref' = ImageAt(L.chain, d2, Len(L.chain))
            /\ usnap' = IF stale THEN UserImages(L.chain, d2)
                        ELSE [u \in DOMAIN usnap \cap Range(L.chain) |-> usnap[u]]
            /\ cleaner' = [st |-> "idle", name |-> ""]
            /\ lm' = LmIdle /\ stale' = FALSE
            /\ res' = "ok" /\ out' = <<>>
            /\ UNCHANGED <<size, open, mode, rebuilding, dirty, rev, checkpoint, punch,
                           preload>>

\* Server.Resize(nb): grow only (same size is accepted by the replica)
Resize(nb) ==
    /\ Called("Resize", [nb |-> nb])
    /\ nb \in 0..MaxNB
    /\ IF ~open \/ nb < size THEN Refuse
       ELSE /\ size' = nb
            /\ res' = "ok" /\ out' = <<>>
            /\ UNCHANGED <<disks, headN, chain, loc, snapIdx, holeQ, open, mode,
                           rebuilding, dirty, rev, checkpoint, punch, preload, lm, stale, cleaner,
                           ref, usnap>>

\* ---- life cycle ---------------------------------------------------------------
Close ==
    /\ Called("Close", << >>)
    /\ res' = "ok" /\ out' = <<>>
    /\ IF ~open THEN UNCHANGED <<disks, headN, chain, loc, snapIdx, holeQ, size, open,
                                 mode, rebuilding, dirty, rev, checkpoint, punch, preload, lm, stale,
                                 cleaner, ref, usnap>>
       ELSE /\ open' = FALSE /\ mode' = "CLOSED" /\ dirty' = FALSE
            /\ holeQ' = {} /\ loc' = ZeroLoc /\ chain' = <<>> /\ snapIdx' = 0
            /\ cleaner' = [st |-> "idle", name |-> ""]
            /\ lm' = LmIdle
            /\ UNCHANGED <<disks, headN, size, rebuilding, rev, checkpoint, punch,
                           preload, stale, ref, usnap>>

Open ==
    /\ Called("Open", [preload |-> preload])
    /\ IF open \/ ~LoadOK(disks, headN) THEN Refuse
       ELSE LET L == Loaded(disks, headN, preload, size)
            IN  /\ open' = TRUE /\ mode' = "INIT"
                /\ chain' = L.chain /\ loc' = L.loc /\ snapIdx' = L.snapIdx
                /\ holeQ' = L.holes
                /\ stale' = FALSE
                /\ ref' = IF stale THEN ImageAt(L.chain, disks, Len(L.chain)) ELSE ref
                /\ usnap' = IF stale THEN UserImages(L.chain, disks) ELSE usnap
                /\ res' = "ok" /\ out' = <<>>
                /\ UNCHANGED <<disks, headN, size, rebuilding, dirty, rev, checkpoint,
                               punch, preload, lm, cleaner>>

\* Server.Reload: a new Replica object over the same directory; mode kept;
\* switches reclamation on.  (Environment assumption: no punch is in flight.)
Reload ==
    /\ Called("Reload", [preload |-> preload])
    /\ IF ~open THEN Refuse
       ELSE IF ~LoadOK(disks, headN) THEN
            \* the new Replica cannot be built: the old one stays, reclamation is switched off
            /\ punch' = FALSE
            /\ res' = "refused" /\ out' = <<>>
            /\ UNCHANGED <<disks, headN, chain, loc, snapIdx, holeQ, size, open, mode,
                           rebuilding, dirty, rev, checkpoint, preload, cleaner, lm, stale,
                           ref, usnap>>
       ELSE /\ holeQ = {}
            /\ punch' = TRUE
            /\ LET ch == PathTo(disks, HeadF)
               IN /\ chain' = ch
                  /\ loc' = IF preload THEN PreloadLoc(ch, disks, size) ELSE ZeroLoc
                  /\ snapIdx' = LastUserIdx(ch, disks)
                  \* preload runs with ShouldPunchHoles already TRUE
                  /\ holeQ' = IF preload THEN PreloadHolesP(ch, disks, size, TRUE) ELSE {}
                  /\ ref' = IF stale THEN ImageAt(ch, disks, Len(ch)) ELSE ref
                  /\ usnap' = IF stale THEN UserImages(ch, disks) ELSE usnap
            /\ stale' = FALSE /\ lm' = LmIdle
            /\ res' = "ok" /\ out' = <<>>
            /\ UNCHANGED <<disks, headN, size, open, mode, rebuilding, dirty, rev,
                           checkpoint, preload, cleaner>>

SetPreload(p) ==
    /\ Called("SetPreload", [p |-> p])
    /\ preload' = p /\ res' = "ok" /\ out' = <<>>
    /\ UNCHANGED <<disks, headN, chain, loc, snapIdx, holeQ, size, open, mode, rebuilding,
                   dirty, rev, checkpoint, punch, cleaner, lm, stale, ref, usnap>>

\* the process-global switch types.ShouldPunchHoles (sync.Task sets it)
SetPunch(p) ==
    /\ Called("SetPunch", [p |-> p])
    /\ punch' = p /\ res' = "ok" /\ out' = <<>>
    /\ UNCHANGED <<disks, headN, chain, loc, snapIdx, holeQ, size, open, mode, rebuilding,
                   dirty, rev, checkpoint, preload, lm, stale, cleaner, ref, usnap>>

SetMode(m) ==
    /\ Called("SetMode", [mode |-> m])
    /\ IF ~open \/ m \notin {"RW", "WO"} THEN Refuse
       ELSE /\ mode' = m /\ res' = "ok" /\ out' = <<>>
            /\ UNCHANGED <<disks, headN, chain, loc, snapIdx, holeQ, size, open, rebuilding,
                           dirty, rev, checkpoint, punch, preload, lm, stale, cleaner, ref, usnap>>

\* Server.SetRebuilding: true only from open/dirty, false only from rebuilding
SetRebuilding(r) ==
    /\ Called("SetRebuilding", [r |-> r])
    /\ IF ~open \/ (r /\ rebuilding) \/ (~r /\ ~rebuilding) THEN Refuse
       ELSE /\ rebuilding' = r /\ res' = "ok" /\ out' = <<>>
            /\ UNCHANGED <<disks, headN, chain, loc, snapIdx, holeQ, size, open, mode,
                           dirty, rev, checkpoint, punch, preload, lm, stale, cleaner, ref, usnap>>

SetCheckpoint(n) ==
    /\ Called("SetCheckpoint", [name |-> n])
    /\ IF ~open THEN Refuse
       ELSE /\ checkpoint' = n /\ res' = "ok" /\ out' = <<>>
            /\ UNCHANGED <<disks, headN, chain, loc, snapIdx, holeQ, size, open, mode,
                           rebuilding, dirty, rev, punch, preload, lm, stale, cleaner, ref, usnap>>

\* Server.SetRevisionCounter: only while RW
SetRev(c) ==
    /\ Called("SetRev", [c |-> c])
    /\ IF ~open \/ mode # "RW" THEN Refuse
       ELSE /\ rev' = c /\ res' = "ok" /\ out' = <<>>
            /\ UNCHANGED <<disks, headN, chain, loc, snapIdx, holeQ, size, open, mode,
                           rebuilding, dirty, checkpoint, punch, preload, lm, stale, cleaner, ref, usnap>>

\* ---- the hole puncher goroutine ---------------------------------------------
PunchOne(e) ==
    /\ e \in holeQ
    /\ Called("PunchOne", [file |-> e[1], b |-> e[2]])
    /\ holeQ' = holeQ \ {e}
    /\ disks' = IF e[1] \in DOMAIN disks THEN [disks EXCEPT ![e[1]].data[e[2]] = Hole]
                ELSE disks
    /\ res' = "ok" /\ out' = <<>>
    /\ UNCHANGED <<headN, chain, loc, snapIdx, size, open, mode, rebuilding, dirty, rev,
                   checkpoint, punch, preload, lm, stale, cleaner, ref, usnap>>

\* ---- rebuild, replica side ---------------------------------------------------
\* The sync agent (ssync receiver, another goroutine, no Server lock) overwrites or
\* creates snapshot file n and its metadata with the healthy replica's.  Environment:
\* only while the replica is marked rebuilding and reclamation is off (sync.AddReplica
\* switches it off before anything else).  The open replica's view is stale until the
\* next load.
SyncFile(n, rec) ==
    /\ Called("SyncFile", [name |-> n, parent |-> rec.parent, user |-> rec.user,
                            removed |-> rec.removed, data |-> rec.data])
    /\ rebuilding /\ ~punch /\ holeQ = {}
    /\ n # HeadF
    /\ disks' = [m \in DOMAIN disks \cup {n} |-> IF m = n THEN rec ELSE disks[m]]
    /\ stale' = TRUE
    /\ res' = "ok" /\ out' = <<>>
    /\ UNCHANGED <<headN, chain, loc, snapIdx, holeQ, size, open, mode, rebuilding, dirty,
                   rev, checkpoint, punch, preload, cleaner, lm, ref, usnap>>

\* the merge of UpdateLUNMap's second section
\* ("mergeTakesScan": a merge that trusts the scan even where a write arrived after it)
MergeLoc(pre, lc) == [b \in Blocks |-> IF pre[b] = 0 \/ (lc[b] > pre[b] /\ "mergeTakesScan" \notin Bug)
                                       THEN lc[b] ELSE pre[b]]
MergeHoles(pre, lc, files, uidx) ==
    IF ~punch THEN {}
    ELSE {<<files[pre[b]], b>> : b \in {bb \in Blocks : pre[bb] # 0 /\ lc[bb] > pre[bb] /\ pre[bb] > uidx}}

\* Server.UpdateLUNMap, first locked section + PreloadLunMap on a private copy of the
\* volume with an empty map (the scan itself runs without the lock; modelled as atomic,
\* DESIGN.md 3.1)
LunMapScan ==
    /\ Called("LunMapScan", << >>)
    /\ IF ~open THEN Refuse
       ELSE /\ lm' = [st |-> "scanned", pre |-> PreloadLoc(chain, disks, size), files |-> chain,
                      uidx |-> LastUserIdx(chain, disks)]
            /\ holeQ' = holeQ \cup PreloadHoles(chain, disks, size)
            /\ res' = "ok" /\ out' = <<>>
            /\ UNCHANGED <<disks, headN, chain, loc, snapIdx, size, open, mode, rebuilding,
                           dirty, rev, checkpoint, punch, preload, cleaner, stale, ref, usnap>>

\* second locked section: entries the live map lacks (or holds older) come from the
\* scan; where the live map is newer the scanned owner loses the block
LunMapMerge ==
    /\ Called("LunMapMerge", << >>)
    /\ lm.st = "scanned" /\ open
    /\ loc' = MergeLoc(lm.pre, loc)
    /\ holeQ' = holeQ \cup MergeHoles(lm.pre, loc, lm.files, lm.uidx)
    /\ lm' = LmIdle
    /\ res' = "ok" /\ out' = <<>>
    /\ UNCHANGED <<disks, headN, chain, snapIdx, size, open, mode, rebuilding, dirty, rev,
                   checkpoint, punch, preload, cleaner, stale, ref, usnap>>

\* Server.UpdateLUNMap with nothing running between its two sections
UpdateLUNMap ==
    /\ Called("UpdateLUNMap", << >>)
    /\ lm.st = "idle"
    /\ IF ~open THEN Refuse
       ELSE LET pre == PreloadLoc(chain, disks, size) IN
            /\ loc' = MergeLoc(pre, loc)
            /\ holeQ' = holeQ \cup PreloadHoles(chain, disks, size)
                              \cup MergeHoles(pre, loc, chain, LastUserIdx(chain, disks))
            /\ res' = "ok" /\ out' = <<>>
            /\ UNCHANGED <<disks, headN, chain, snapIdx, size, open, mode, rebuilding, dirty, rev,
                           checkpoint, punch, preload, cleaner, lm, stale, ref, usnap>>

\* Server.ReplaceDisk(target, source): target's image becomes a hard link of source's,
\* source leaves the chain (its child is re-parented) and is unlinked.  Only RW.  The
\* image the volume serves is whatever results (a management operation that redefines
\* it, like Revert).  The specification requires a refusal without effect when source
\* is the head (the head would be unlinked) or equals target (the image would be
\* unlinked before the link fails); "replaceUnchecked" = as coded.
ReplaceDisk(t, src) ==
    /\ Called("ReplaceDisk", [target |-> t, source |-> src])
    /\ IF ~open \/ mode # "RW" \/ t = HeadF \/ src \notin DOMAIN disks THEN Refuse
       ELSE IF (src = HeadF \/ src = t) /\ "replaceUnchecked" \notin Bug THEN Refuse
       ELSE IF src = t THEN     \* as coded: target unlinked, then the link fails
            /\ disks' = [m \in DOMAIN disks \ {t} |-> disks[m]]
            /\ res' = "refused" /\ out' = <<>> /\ holeQ' = {}
            /\ UNCHANGED <<headN, chain, loc, snapIdx, size, open, mode, rebuilding, dirty,
                           rev, checkpoint, punch, preload, cleaner, lm, stale, ref, usnap>>
       ELSE
        LET i   == IdxOf(chain, src)
            T   == Len(chain)
            \* (environment: t names an existing file; otherwise an image without metadata appears)
            d1  == IF t \in DOMAIN disks THEN [disks EXCEPT ![t].data = disks[src].data] ELSE disks
            ch2 == IF i = 0 THEN chain ELSE SeqRemove(chain, i)
            d2  == [m \in DOMAIN d1 \ {src} |->
                      IF i # 0 /\ i < T /\ m = chain[i + 1]
                      THEN [d1[m] EXCEPT !.parent = disks[src].parent] ELSE d1[m]]
            lu  == LastUserIdx(ch2, d2)
        IN  /\ disks' = d2
            /\ chain' = ch2
            /\ loc' = IF i = 0 THEN loc
                      ELSE [b \in Blocks |-> IF loc[b] >= i THEN loc[b] - 1 ELSE loc[b]]
            /\ snapIdx' = IF i = 0 THEN snapIdx ELSE IF lu # 0 THEN lu ELSE snapIdx
            /\ holeQ' = {}
            /\ ref' = ImageAt(ch2, d2, Len(ch2))
            /\ usnap' = UserImages(ch2, d2)
            /\ cleaner' = [st |-> "idle", name |-> ""]
            \* the block map is only shifted as for a removal (entries of the source move to its
            \* parent) although the data went to the target: what the engine reads is the caller's
            \* responsibility until the next load -- data invariants are suspended like after a sync
            /\ stale' = TRUE
            /\ res' = "ok" /\ out' = <<>>
            /\ UNCHANGED <<headN, size, open, mode, rebuilding, dirty, rev, checkpoint,
                           punch, preload, lm>>

-----------------------------------------------------------------------------
(* Invariants *)

\* C01: what the engine reads through its block map is the reference image
Fresh == open /\ ~stale
ReadBack == Fresh => \A b \in Blocks : b < size => Agree(ReadBlock(b), ref[b])
\* ... and so is the plain image of the chain (independent of the map)
LiveIsRef == Fresh => \A b \in Blocks : b < size => Agree(Live[b], ref[b])
\* the map never points below a newer holder
LocSound == Fresh => \A b \in Blocks :
                loc[b] # 0 => HolderUpTo(chain, disks, Len(chain), b) <= loc[b]

\* C06 / C11: every retained user snapshot still has the image it had when taken
UserSnapImmutable ==
    Fresh => \A u \in DOMAIN usnap :
        /\ InChain(u)
        /\ \A b \in Blocks : b < size =>
              Agree(ImageAt(chain, disks, IdxOf(chain, u))[b], usnap[u][b])

\* every queued punch is harmless whenever it is finally executed
PunchSafe == ~stale => \A e \in holeQ : Harmless(chain, disks, usnap, e[1], e[2])

\* C12: the open chain is the parent walk from the head; names unique
ChainWF ==
    Fresh => (/\ chain = PathTo(disks, HeadF)
              /\ Len(chain) >= 1
              /\ \A i, j \in 1..Len(chain) : chain[i] = chain[j] => i = j
              /\ \A k \in 2..Len(chain) : disks[chain[k]].parent = chain[k - 1]
              /\ disks[chain[1]].parent = "")

\* C11: the cleaner never selects a protected member
CleanerNeverPicks ==
    Fresh => \A n \in Candidates(checkpoint) :
        /\ ~Protected(n)
        /\ ~(disks[n].user /\ ~disks[n].removed)
        /\ IdxOf(chain, n) < IdxOf(chain, checkpoint)
        /\ LET p == chain[IdxOf(chain, n) - 1] IN ~(disks[p].user /\ ~disks[p].removed)

\* C10 as an action property: the counter moves only by +1 on an accepted RW
\* write, or through the explicit setter
RevExact ==
    [][ \/ rev' = rev
        \/ (op'.name = "Write" /\ res' = "ok" /\ mode = "RW" /\ rev' = rev + 1)
        \/ (op'.name = "SetRev" /\ res' = "ok") ]_vars
RevCounts ==
    [][ (op'.name = "Write" /\ res' = "ok") =>
            rev' = rev + (IF mode = "RW" THEN 1 ELSE 0) ]_vars

\* C12 / C17: a refused call changes nothing that persists
RefusedUnchanged ==
    [][ res' = "refused" => UNCHANGED <<disks, headN, chain, size, rev, checkpoint,
                                         rebuilding, mode, open>> ]_vars

\* C11: deletion steps never change the live image
DeleteNeutral ==
    [][ op'.name \in {"PrepareRemove", "Coalesce", "RemoveDisk", "CleanerPick", "PunchOne",
                      "LunMapScan", "LunMapMerge", "UpdateLUNMap"}
          => ref' = ref ]_vars
=============================================================================
