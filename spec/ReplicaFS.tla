------------------------------ MODULE ReplicaFS ------------------------------
(***************************************************************************)
(* The replica directory at file-system-call granularity (C08).            *)
(*                                                                         *)
(* State: directory entries (name -> inode) and inode contents as far as   *)
(* recovery cares: a metadata inode holds a parsed record, or is empty /   *)
(* garbage; image inodes just exist.  The generic file-system actions      *)
(* below are always enabled, whatever order the code issues them in; the   *)
(* operator Recover is the transcription of readMetadata + openLiveChain   *)
(* (parse volume.meta, walk the parents from the head, require every       *)
(* member's image and metadata file).                                      *)
(*                                                                         *)
(* Process death at any instant leaves exactly the effect of the calls     *)
(* completed so far, so CrashSafe is "Recover(dir) is the chain before or  *)
(* the chain after" evaluated after every prefix of an operation's calls.  *)
(***************************************************************************)
EXTENDS Integers, Sequences, FiniteSets, TLC

VARIABLES
    names,      \* directory: file name |-> inode number
    inodes,     \* inode number |-> content: [k |-> "img"] | [k |-> "meta", head, parent] | [k |-> "bad"]
    nextIno,
    dirtyDir    \* a directory entry changed since the last fsync of the directory

fsvars == <<names, inodes, nextIno, dirtyDir>>

Img  == [k |-> "img", head |-> "", parent |-> ""]
Bad  == [k |-> "bad", head |-> "", parent |-> ""]
Meta(h, p) == [k |-> "meta", head |-> h, parent |-> p]

Exists(n) == n \in DOMAIN names
Content(n) == inodes[names[n]]

\* ---- generic file system actions (effects only; always enabled) ------------
FsCreate(n, trunc, kind) ==
    IF Exists(n)
    THEN /\ inodes' = IF trunc THEN [inodes EXCEPT ![names[n]] = IF kind = "img" THEN Img ELSE Bad]
                      ELSE inodes
         /\ UNCHANGED <<names, nextIno, dirtyDir>>
    ELSE /\ names' = [x \in DOMAIN names \cup {n} |-> IF x = n THEN nextIno ELSE names[x]]
         /\ inodes' = [i \in DOMAIN inodes \cup {nextIno} |->
                          IF i = nextIno THEN (IF kind = "img" THEN Img ELSE Bad) ELSE inodes[i]]
         /\ nextIno' = nextIno + 1
         /\ dirtyDir' = TRUE

FsWriteMeta(n, c) ==
    /\ inodes' = IF Exists(n) THEN [inodes EXCEPT ![names[n]] = c] ELSE inodes
    /\ UNCHANGED <<names, nextIno, dirtyDir>>

FsRename(a, b) ==
    /\ names' = IF Exists(a)
                THEN [x \in (DOMAIN names \ {a}) \cup {b} |-> IF x = b THEN names[a] ELSE names[x]]
                ELSE names
    /\ dirtyDir' = TRUE
    /\ UNCHANGED <<inodes, nextIno>>

FsLink(a, b) ==
    /\ names' = IF Exists(a) /\ ~Exists(b)
                THEN [x \in DOMAIN names \cup {b} |-> IF x = b THEN names[a] ELSE names[x]]
                ELSE names
    /\ dirtyDir' = TRUE
    /\ UNCHANGED <<inodes, nextIno>>

FsUnlink(a) ==
    /\ names' = [x \in DOMAIN names \ {a} |-> names[x]]
    /\ dirtyDir' = TRUE
    /\ UNCHANGED <<inodes, nextIno>>

FsSyncDir == dirtyDir' = FALSE /\ UNCHANGED <<names, inodes, nextIno>>
FsNone    == UNCHANGED fsvars

\* ---- recovery --------------------------------------------------------------
MetaOf(nm) == nm \o ".meta"
Usable(nm) == /\ Exists(nm) /\ Content(nm).k = "img"
              /\ Exists(MetaOf(nm)) /\ Content(MetaOf(nm)).k = "meta"

RECURSIVE Walk(_, _)
\* head .. base, or <<"FAIL">> ; fuel bounds the walk (cycles)
Walk(nm, fuel) ==
    IF fuel = 0 \/ ~Usable(nm) THEN <<"FAIL">>
    ELSE LET p == Content(MetaOf(nm)).parent
         IN IF p = "" THEN <<nm>>
            ELSE LET rest == Walk(p, fuel - 1)
                 IN IF rest = <<"FAIL">> THEN rest ELSE <<nm>> \o rest

Recover ==
    IF ~Exists("volume.meta") \/ Content("volume.meta").k # "meta" \/ Content("volume.meta").head = ""
    THEN <<"FAIL">>
    ELSE Walk(Content("volume.meta").head, Cardinality(DOMAIN names) + 1)
=============================================================================
