----------------------------- MODULE MCReplica -----------------------------
(* Bounded instance of Replica for exhaustive model checking (DESIGN.md 5). *)
EXTENDS Replica

CONSTANTS
    InitNB,     \* initial size in blocks
    Names,      \* snapshot names scenarios may use
    MaxV,       \* write values 1..MaxV
    MaxHead,    \* bound on the head index (snapshots + reverts)
    MaxLen,     \* bound on the chain length
    MaxRev,     \* bound on the revision counter (constraint)
    Punch,      \* initial value(s) of types.ShouldPunchHoles
    Sim,        \* TRUE: random-walk scenario generation (arguments sampled, not enumerated)
    Ops         \* which optional action groups are enabled

Init == \E pu \in Punch : Init0(InitNB, pu)

SnapFiles == {SnapFile(x) : x \in Names}
\* names a management call may be given: every file, plus one that never exists
ArgNames == (DOMAIN disks) \cup {"s-none"}

\* I/O arguments: every (offset, length, value) when model checking; a handful of
\* sampled ones per state in simulation (TLC builds all successors before it picks)
NS == size * SPB
SampleRange(k) ==
    {LET s0 == RandomElement(0..(NS - 1))
         n  == RandomElement(1..(NS - s0))
     IN <<s0, n>> : i \in 1..k}
    \cup {LET b0 == RandomElement(0..(size - 1))
              bn == RandomElement(1..(size - b0))
          IN <<b0 * SPB, bn * SPB>> : i \in 1..k}
    \cup {LET s0 == RandomElement(0..(NS - 1))
              n  == RandomElement(1..(IF NS - s0 < 4 THEN NS - s0 ELSE 4))
          IN <<s0, n>> : i \in 1..k}
IORanges == IF Sim THEN SampleRange(3)
            ELSE {<<s0, n>> : s0 \in 0..(NS - 1), n \in 1..NS} \cap
                 {r \in (0..(NS - 1)) \X (1..NS) : r[1] + r[2] <= NS}
\* contents the sync agent may bring: all holes, or value MaxV + 1 in every block / in block 0 only
SyncData == {EmptyData,
             [b \in Blocks |-> [i \in 1..SPB |-> MaxV + 1]],
             [b \in Blocks |-> IF b = 0 THEN [i \in 1..SPB |-> MaxV + 1] ELSE Hole]}
WriteVals == IF Sim THEN {((rev + headN * 31) % MaxV) + 1} ELSE 1..MaxV

Next ==
    \/ \E r \in IORanges : \E v \in WriteVals : Write(r[1], r[2], v)
    \/ ("read" \in Ops /\ \E r \in (IF Sim THEN {rr \in IORanges : rr[1] % 2 = 0} \cup {<<0, NS>>} ELSE IORanges) :
            Read(r[1], r[2]))
    \/ (headN < MaxHead /\ Len(chain) < MaxLen /\ \E x \in Names : \E u \in BOOLEAN : Snapshot(x, u))
    \/ ("dup" \in Ops /\ open /\ \E x \in Names : SnapFile(x) \in DOMAIN disks /\ Snapshot(x, TRUE))
    \/ \E n \in ArgNames : PrepareRemove(n)
    \/ \E n \in ArgNames : CleanerPick(n)
    \* environment: the merge runs seconds after the deletion was prepared, the puncher serves its
    \* queue within milliseconds -- no punch for the merge target is still pending (one that ran
    \* after the merge would remove blocks the target has just received: DESIGN.md 7, observations)
    \/ \E n \in DOMAIN disks : /\ cleaner = [st |-> "prepared", name |-> n]
                               /\ \A e \in holeQ : e[1] # disks[n].parent
                               /\ Coalesce(n)
    \/ \E n \in ArgNames :
          /\ (InChain(n) /\ ~Protected(n)) => cleaner = [st |-> "folded", name |-> n]
          /\ RemoveDisk(n)
    \* C06 promises nothing about reverting to an automatic snapshot while
    \* reclamation is thinning it: with a punch in flight only user snapshots
    \* of the live chain (and invalid names) are reverted to.  (A user snapshot that
    \* an earlier revert left outside the live chain is not protected either: its
    \* ancestors in the chain are reclaimed like any automatic snapshot -- DESIGN.md 5, C06.)
    \/ ("revert" \in Ops /\ headN < MaxHead /\ \E n \in ArgNames :
            /\ (n \in DOMAIN disks /\ n # HeadF /\ (~disks[n].user \/ ~InChain(n))) => holeQ = {}
            \* punches requested while the block map was unreliable (after a ReplaceDisk / sync)
            \* have been carried out before the volume is loaded afresh
            /\ stale => holeQ = {}
            /\ Revert(n))
    \/ ("resize" \in Ops /\ \E nb \in {size - 1, size, size + 1} \cap (0..MaxNB) : Resize(nb))
    \* (a reload belongs to a rebuild or clone; the cleaner only works on a replica that is in
    \* service: no deletion is between merge and unlink when the volume is reloaded)
    \/ ("reopen" \in Ops /\ (Close \/ Open \/ (cleaner.st = "idle" /\ Reload) \/ \E p \in BOOLEAN : SetPreload(p)))
    \/ ("mode" \in Ops /\ \E m \in {"RW", "WO", "ERR"} : SetMode(m))
    \/ ("meta" \in Ops /\ (\/ \E r \in BOOLEAN : SetRebuilding(r)
                           \/ \E n \in SnapFiles \cup {""} : SetCheckpoint(n)
                           \/ \E c \in {rev, rev + 2} : SetRev(c)))
    \/ \E n \in SnapFiles : InChain(n) /\ checkpoint # n /\ SetCheckpoint(n)
    \/ \E e \in holeQ : PunchOne(e)
    \/ ("unmap" \in Ops /\ \E r \in IORanges : Unmap(r[1], r[2]))
    \* (a target that does not exist would become an image without metadata: outside the model)
    \/ ("replace" \in Ops /\ \E t \in DOMAIN disks : \E sr \in ArgNames : ReplaceDisk(t, sr))
    \* replica side of a rebuild: the sync agent rewrites snapshot files (content and
    \* flags of the healthy replica's: here any of a few shapes over the current names,
    \* acyclic by construction: parents stay as they are, new files are inserted below
    \* the head's parent only through SyncNew), then reload and UpdateLUNMap
    \/ ("rebuild" \in Ops /\ \E n \in (DOMAIN disks \ {HeadF}) : \E dv \in SyncData : \E u \in BOOLEAN :
            SyncFile(n, [parent |-> disks[n].parent, user |-> u, removed |-> FALSE, data |-> dv]))
    \/ ("rebuild" \in Ops /\ LunMapScan)
    \/ ("rebuild" \in Ops /\ LunMapMerge)
    \/ ("rebuild" \in Ops /\ UpdateLUNMap)

\* while UpdateLUNMap is between its two sections only I/O runs (the controller has
\* the replica in WO: no snapshot, removal, revert or resize reaches it)
LmQuiet == lm.st = "scanned" => op'.name \in {"Write", "Read", "Unmap", "PunchOne", "LunMapMerge"}

Spec == Init /\ [][Next /\ LmQuiet]_vars

Bound == rev <= MaxRev

\* observation-only variables are hidden from the fingerprint
View == <<disks, headN, chain, loc, snapIdx, holeQ, size, open, mode, rebuilding,
          dirty, rev, checkpoint, punch, preload, cleaner, lm, stale, ref, usnap>>
=============================================================================
