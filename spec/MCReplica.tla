----------------------------- MODULE MCReplica -----------------------------
(* Bounded instance of Replica for exhaustive model checking (DESIGN.md 5). *)
EXTENDS Replica

CONSTANTS
    InitNB,     \* initial size in blocks
    Names,      \* snapshot names scenarios may use
    MaxV,       \* write values 1..MaxV
    MaxHead,    \* bound on the head index (snapshots + reverts)
    MaxLen,     \* bound on the chain length
    MaxRev,     \* bound on the revision counter (constraint)
    Punch,      \* initial value(s) of types.ShouldPunchHoles
    Ops         \* which optional action groups are enabled

Init == \E pu \in Punch : Init0(InitNB, pu)

SnapFiles == {SnapFile(x) : x \in Names}
\* names a management call may be given: every file, plus one that never exists
ArgNames == (DOMAIN disks) \cup {"s-none"}

Next ==
    \/ \E s0 \in 0..(size * SPB - 1) : \E n \in 1..(size * SPB - s0) : \E v \in 1..MaxV :
          Write(s0, n, v)
    \/ ("read" \in Ops /\ \E s0 \in 0..(size * SPB - 1) : \E n \in 1..(size * SPB - s0) : Read(s0, n))
    \/ (headN < MaxHead /\ Len(chain) < MaxLen /\ \E x \in Names : \E u \in BOOLEAN : Snapshot(x, u))
    \/ ("dup" \in Ops /\ open /\ \E x \in Names : SnapFile(x) \in DOMAIN disks /\ Snapshot(x, TRUE))
    \/ \E n \in ArgNames : PrepareRemove(n)
    \/ \E n \in ArgNames : CleanerPick(n)
    \/ \E n \in DOMAIN disks : cleaner = [st |-> "prepared", name |-> n] /\ Coalesce(n)
    \/ \E n \in ArgNames :
          /\ (InChain(n) /\ ~Protected(n)) => cleaner = [st |-> "folded", name |-> n]
          /\ RemoveDisk(n)
    \/ ("revert" \in Ops /\ headN < MaxHead /\ \E n \in ArgNames : Revert(n))
    \/ ("resize" \in Ops /\ \E nb \in {size - 1, size, size + 1} \cap (0..MaxNB) : Resize(nb))
    \/ ("reopen" \in Ops /\ (Close \/ Open \/ Reload \/ \E p \in BOOLEAN : SetPreload(p)))
    \/ ("mode" \in Ops /\ \E m \in {"RW", "WO", "ERR"} : SetMode(m))
    \/ ("meta" \in Ops /\ (\/ \E r \in BOOLEAN : SetRebuilding(r)
                           \/ \E n \in SnapFiles \cup {""} : SetCheckpoint(n)
                           \/ \E c \in {rev, rev + 2} : SetRev(c)))
    \/ \E n \in SnapFiles : InChain(n) /\ checkpoint # n /\ SetCheckpoint(n)
    \/ \E e \in holeQ : PunchOne(e)

Spec == Init /\ [][Next]_vars

Bound == rev <= MaxRev

\* observation-only variables are hidden from the fingerprint
View == <<disks, headN, chain, loc, snapIdx, holeQ, size, open, mode, rebuilding,
          dirty, rev, checkpoint, punch, preload, cleaner, ref, usnap>>
=============================================================================
