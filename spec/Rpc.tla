-------------------------------- MODULE Rpc --------------------------------
(***************************************************************************)
(* The controller-replica data connection (rpc.Client against a peer).     *)
(* Callers issue reads/writes/syncs/pings concurrently; the client's loop  *)
(* goroutine gives each request a sequence number and remembers it in      *)
(* `messages`; the peer may answer outstanding frames in ANY order, answer *)
(* with an error, never answer (stall), close the stream or corrupt it.    *)
(* The wire towards the client is FIFO: replies sent before the stream     *)
(* died are still delivered.  A transport error or a caller's deadline     *)
(* sets the sticky error: every pending call fails, later calls fail, and  *)
(* the failure is reported on the close channel (C15).                     *)
(***************************************************************************)
EXTENDS Integers, Sequences, FiniteSets, TLC

CONSTANTS Calls,        \* call identifiers
          Bug

VARIABLES
    st,         \* call -> "new" | "queued" | "sent" | "ok" | "rerr" | "terr" | "timeout"
    seqOf,      \* call -> sequence number (0 = none yet)
    got,        \* call -> sequence number whose reply payload it received (0 = none)
    nextSeq,
    messages,   \* set of sequence numbers awaiting a reply (Client.messages)
    inbox,      \* set of sequence numbers the peer holds unanswered
    wire,       \* FIFO towards the client: <<seq, kind>> entries, kind "resp" | "err" | "eof"
    err,        \* sticky Client.err
    dead,       \* the peer closed / corrupted the stream
    notified,   \* tokens on the close channel
    lastop

vars == <<st, seqOf, got, nextSeq, messages, inbox, wire, err, dead, notified, lastop>>

Pending(c) == st[c] \in {"queued", "sent"}
CallOfSeq(s) == CHOOSE c \in Calls : seqOf[c] = s

Init ==
    /\ st = [c \in Calls |-> "new"] /\ seqOf = [c \in Calls |-> 0] /\ got = [c \in Calls |-> 0]
    /\ nextSeq = 1 /\ messages = {} /\ inbox = {} /\ wire = <<>>
    /\ err = FALSE /\ dead = FALSE /\ notified = 0 /\ lastop = "init"

\* Client.operation: a call made after the error is known fails at once
Issue(c) ==
    /\ st[c] = "new"
    /\ st' = [st EXCEPT ![c] = IF err THEN "terr" ELSE "queued"]
    /\ lastop' = "issue"
    /\ UNCHANGED <<seqOf, got, nextSeq, messages, inbox, wire, err, dead, notified>>

\* loop.handleRequest + write goroutine + the peer decoding the frame
Deliver(c) ==
    /\ st[c] = "queued"
    /\ lastop' = "deliver"
    /\ IF err THEN      \* replyError
            /\ st' = [st EXCEPT ![c] = "terr"]
            /\ UNCHANGED <<seqOf, got, nextSeq, messages, inbox, wire, err, dead, notified>>
       ELSE /\ st' = [st EXCEPT ![c] = "sent"]
            /\ seqOf' = [seqOf EXCEPT ![c] = nextSeq]
            /\ nextSeq' = nextSeq + 1
            /\ messages' = messages \cup {nextSeq}
            /\ inbox' = IF dead THEN inbox ELSE inbox \cup {nextSeq}
            /\ UNCHANGED <<got, wire, err, dead, notified>>

\* the peer answers any outstanding frame, in any order
PeerReply(s, kind) ==
    /\ s \in inbox /\ ~dead /\ kind \in {"resp", "err"}
    /\ inbox' = inbox \ {s}
    /\ wire' = Append(wire, <<s, kind>>)
    /\ lastop' = "reply"
    /\ UNCHANGED <<st, seqOf, got, nextSeq, messages, err, dead, notified>>

\* the peer closes the stream or sends garbage: everything behind it is lost
PeerDies ==
    /\ ~dead
    /\ dead' = TRUE
    /\ wire' = Append(wire, <<0, "eof">>)
    /\ lastop' = "dies"
    /\ UNCHANGED <<st, seqOf, got, nextSeq, messages, inbox, err, notified>>

\* read goroutine + loop.handleResponse for the head of the wire
Complete ==
    /\ wire # <<>>
    /\ wire' = Tail(wire)
    /\ lastop' = "complete"
    /\ LET s == Head(wire)[1]
           kind == Head(wire)[2]
       IN IF kind = "eof" THEN
               \* transport error: sticky, reported, every pending call fails
               /\ err' = TRUE
               /\ notified' = IF err THEN notified ELSE notified + 1
               /\ st' = [c \in Calls |-> IF st[c] = "sent" /\ "noFailPending" \notin Bug THEN "terr" ELSE st[c]]
               /\ messages' = {}
               /\ UNCHANGED <<seqOf, got, nextSeq, inbox, dead>>
          ELSE IF s \in messages THEN
               LET t == IF "completeWrongSeq" \in Bug /\ Cardinality(messages) > 1
                        THEN CHOOSE x \in messages : x # s ELSE s
                   c == CallOfSeq(t)
               IN /\ st' = [st EXCEPT ![c] = IF err THEN "terr" ELSE IF kind = "resp" THEN "ok" ELSE "rerr"]
                  /\ got' = [got EXCEPT ![c] = s]
                  /\ messages' = messages \ {t}
                  /\ UNCHANGED <<seqOf, nextSeq, inbox, err, dead, notified>>
          ELSE UNCHANGED <<st, seqOf, got, nextSeq, messages, inbox, err, dead, notified>>

\* a caller's deadline expires: it returns the timeout and poisons the client
Timeout(c) ==
    /\ Pending(c)
    /\ lastop' = "timeout"
    /\ err' = TRUE
    /\ notified' = IF err THEN notified ELSE notified + 1
    /\ st' = [d \in Calls |-> IF d = c THEN "timeout"
                              ELSE IF st[d] = "sent" /\ "noFailPending" \notin Bug THEN "terr" ELSE st[d]]
    /\ messages' = {}
    /\ UNCHANGED <<seqOf, got, nextSeq, inbox, wire, dead>>

Next ==
    \/ \E c \in Calls : Issue(c) \/ Deliver(c) \/ Timeout(c)
    \/ \E s \in inbox : \E k \in {"resp", "err"} : PeerReply(s, k)
    \/ PeerDies
    \/ Complete

\* deadline timers only fire for calls that would otherwise wait forever
Fairness ==
    /\ \A c \in Calls : WF_vars(Issue(c)) /\ WF_vars(Deliver(c)) /\ WF_vars(Timeout(c))
    /\ WF_vars(Complete)

Spec == Init /\ [][Next]_vars
LiveSpec == Spec /\ Fairness

Done(c) == st[c] \in {"ok", "rerr", "terr", "timeout"}

\* every reply is delivered to the request that caused it
ReplyMatches == \A c \in Calls : st[c] \in {"ok", "rerr"} => got[c] = seqOf[c]
\* once the error is set no call completes successfully any more
StickyError == [][ err => \A c \in Calls : (st'[c] = "ok" => st[c] = "ok") ]_vars
\* the failure is reported
FailureReported == err => notified >= 1
NotifiedOnce == notified <= 1
\* nothing hangs
EveryCallReturns == <>(\A c \in Calls : Done(c))
NoPendingAfterError == [][ (err' /\ ~err) => \A c \in Calls : st'[c] # "sent" ]_vars
=============================================================================
