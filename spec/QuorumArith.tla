---------------------------- MODULE QuorumArith ----------------------------
(***************************************************************************)
(* The arithmetic the controller's majority and quorum rules rest on, for   *)
(* EVERY number of attached replicas and every replication factor (the      *)
(* TLC configurations of Controller.tla only cover RF 1..3).  Checked with  *)
(* Apalache over unbounded integers:                                        *)
(*   apalache-mc check --init=Init --next=Next --inv=Inv --length=0         *)
(***************************************************************************)
EXTENDS Integers

VARIABLES
    \* @type: Int;
    n,      \* replicas attached (writers) when an operation is fanned out
    \* @type: Int;
    f1,     \* how many of them failed operation 1
    \* @type: Int;
    f2,     \* ... operation 2
    \* @type: Int;
    rf,     \* replication factor
    \* @type: Int;
    rw      \* replicas in RW mode

\* MultiWriterAt: acknowledged iff strictly more than half of the attached applied it
Majority(k, f) == (k - f) * 2 > k
\* UpdateVolStatus: writable iff at least floor(RF/2)+1 replicas are RW
Quorum(r) == (r \div 2) + 1

Init ==
    /\ n \in Nat /\ f1 \in Nat /\ f2 \in Nat /\ rf \in Nat /\ rw \in Nat
    /\ f1 <= n /\ f2 <= n /\ rf >= 1 /\ rw <= rf

Next == UNCHANGED <<n, f1, f2, rf, rw>>

\* two acknowledged operations on the same attached set share a replica that applied both
Intersect == (Majority(n, f1) /\ Majority(n, f2)) => (n - f1) + (n - f2) > n
\* an acknowledgement needs somebody, and is impossible when half or more failed
NonEmpty == Majority(n, f1) => n - f1 >= 1
HalfFails == (2 * f1 >= n) => ~Majority(n, f1)
\* a quorum is more than half of RF, so two quorums intersect and a minority cannot be one
QuorumMoreThanHalf == 2 * Quorum(rf) > rf
MinorityNoQuorum == (2 * rw <= rf) => rw < Quorum(rf)
\* the threshold variants of two seeded changes ((n+1)/2, >=) differ from the rule for even sizes only
VariantDiffers == ((n - f1) >= (n + 1) \div 2 /\ ~Majority(n, f1)) => (n % 2 = 0 /\ 2 * (n - f1) = n)

\* control: with >= instead of > two acknowledgements need not intersect (refuted: n = 2, one failure each)
WrongGE == ((n - f1) * 2 >= n /\ (n - f2) * 2 >= n /\ n >= 1) => (n - f1) + (n - f2) > n

Inv == Intersect /\ NonEmpty /\ HalfFails /\ QuorumMoreThanHalf /\ MinorityNoQuorum /\ VariantDiffers
=============================================================================
