------------------------------ MODULE RestApi ------------------------------
(***************************************************************************)
(* Management API robustness (C14, REST half of C17).                      *)
(*                                                                         *)
(* A server process with one mutex (Controller.RWMutex / replica           *)
(* Server.RWMutex) and a bounded signal queue (replica.ActionChannel, 5    *)
(* slots, nobody reads it once the replica is attached).  Every handler is *)
(* a small program over the steps lock / unlock / send / end, written with *)
(* its real lock structure; a request picks a program by (route, body      *)
(* class).  Up to two requests are in flight.  An unlock of an unlocked    *)
(* mutex is a Go fatal error (process dies); a send on the full queue      *)
(* blocks forever.  The replica's state x action table (Allowed) is the    *)
(* transcription of replica/rest NewReplica.                               *)
(***************************************************************************)
EXTENDS Integers, Sequences, FiniteSets, TLC

CONSTANTS Bug, MaxReq

Routes == {"deleteSnapshot", "plainLocked", "noLock", "replicaStart", "lockedBackendCall", "readLocked"}
\* "backendfails": a well-formed request whose call to a replica fails (the handler's error path)
Classes == {"valid", "malformed", "backendfails"}

\* handler programs (as the property requires them; Bug switches the as-coded ones on)
Prog(r, c) ==
    CASE r = "deleteSnapshot" ->
            IF c = "malformed" /\ "doubleUnlock" \in Bug
            THEN <<"lock", "unlock", "unlock", "end">>      \* explicit unlock + deferred unlock
            ELSE <<"lock", "unlock", "end">>
      [] r = "plainLocked" -> <<"lock", "unlock", "end">>
      [] r = "noLock" -> <<"end">>
      \* controller resize / snapshot / revert: the backend is called under the lock; a failure
      \* is handled by handleErrorNoLock (the lock is already held).  "relockOnError": the
      \* locking variant handleError is called instead
      [] r = "lockedBackendCall" ->
            IF c = "backendfails" /\ "relockOnError" \in Bug
            THEN <<"lock", "lock", "unlock", "unlock", "end">>
            ELSE <<"lock", "unlock", "end">>
      \* replica GET stats / volusage: the REST handler holds the read lock around a Server method
      \* that takes no lock itself.  "nestedRLock": the method takes the read lock again -- with a
      \* writer-preferring RWMutex a write-locking request arriving in between blocks both
      [] r = "readLocked" ->
            IF "nestedRLock" \in Bug THEN <<"rlock", "rlock", "runlock", "runlock", "end">>
            ELSE <<"rlock", "runlock", "end">>
      [] r = "replicaStart" ->
            IF "blockingSend" \in Bug THEN <<"lock", "send", "unlock", "end">>
            ELSE <<"lock", "trysend", "unlock", "end">>

VARIABLES alive, lockHeld, readers, queue, inflight, nreq

vars == <<alive, lockHeld, readers, queue, inflight, nreq>>

Init == alive = TRUE /\ lockHeld = FALSE /\ readers = 0 /\ queue = 0 /\ inflight = {} /\ nreq = 0

\* sync.RWMutex prefers writers: once a writer waits, new readers queue behind it
WriterWaiting == \E h \in inflight : h.prog[h.pc] = "lock" /\ ~h.holds

Arrive(r, c) ==
    /\ alive /\ nreq < MaxReq /\ Cardinality(inflight) < 2
    /\ inflight' = inflight \cup {[id |-> nreq + 1, prog |-> Prog(r, c), pc |-> 1, holds |-> FALSE]}
    /\ nreq' = nreq + 1
    /\ UNCHANGED <<alive, lockHeld, readers, queue>>

StepOf(h) ==
    LET s == h.prog[h.pc]
        adv(x) == (inflight \ {h}) \cup {[h EXCEPT !.pc = h.pc + 1, !.holds = x]}
    IN /\ alive
       /\ CASE s = "lock" -> /\ ~lockHeld /\ readers = 0 /\ lockHeld' = TRUE /\ inflight' = adv(TRUE)
                             /\ UNCHANGED <<alive, readers, queue>>
            [] s = "unlock" -> IF lockHeld
                               THEN /\ lockHeld' = FALSE /\ inflight' = adv(FALSE) /\ UNCHANGED <<alive, readers, queue>>
                               ELSE /\ alive' = FALSE /\ UNCHANGED <<lockHeld, readers, queue, inflight>>   \* fatal error
            [] s = "rlock" -> /\ ~lockHeld /\ ~WriterWaiting /\ readers' = readers + 1
                              /\ inflight' = adv(h.holds) /\ UNCHANGED <<alive, lockHeld, queue>>
            [] s = "runlock" -> /\ readers' = readers - 1 /\ inflight' = adv(h.holds)
                                /\ UNCHANGED <<alive, lockHeld, queue>>
            [] s = "send" -> /\ queue < 5 /\ queue' = queue + 1 /\ inflight' = adv(h.holds)
                             /\ UNCHANGED <<alive, lockHeld, readers>>
            [] s = "trysend" -> /\ queue' = IF queue < 5 THEN queue + 1 ELSE queue
                                /\ inflight' = adv(h.holds) /\ UNCHANGED <<alive, lockHeld, readers>>
            [] s = "end" -> /\ inflight' = inflight \ {h} /\ UNCHANGED <<alive, lockHeld, readers, queue>>
       /\ UNCHANGED nreq

Next == \/ \E r \in Routes : \E c \in Classes : Arrive(r, c)
        \/ \E h \in inflight : StepOf(h)

Spec == Init /\ [][Next]_vars /\ WF_vars(\E h \in inflight : StepOf(h))

NoDoubleUnlock == alive
NoLockLeak == (inflight = {}) => (~lockHeld /\ readers = 0)
\* the handlers in flight can always make a step (no cycle reader -> pending writer -> reader)
NoRWDeadlock == (inflight # {} /\ alive) => \E h \in inflight : ENABLED StepOf(h)
\* no handler sits forever on a full queue while it holds the lock
NoBlockedHandler == \A h \in inflight : ~(h.prog[h.pc] = "send" /\ queue >= 5 /\ h.holds)
\* no handler waits for a mutex it holds itself (sync.RWMutex is not re-entrant)
NoSelfDeadlock == \A h \in inflight : ~(h.prog[h.pc] = "lock" /\ h.holds)
StillServes == []<>(inflight = {})

\* ---- replica REST: which action is offered in which state (replica/rest NewReplica)
Allowed(state) ==
    CASE state = "initial" -> {"start", "create", "resize", "updatecloneinfo"}
      [] state = "open" -> {"start", "resize", "close", "setrebuilding", "setlogging", "snapshot", "reload",
                            "removedisk", "replacedisk", "revert", "prepareremovedisk", "setreplicamode",
                            "setrevisioncounter", "updatecloneinfo", "setcheckpoint"}
      [] state = "closed" -> {"start", "open", "resize", "removedisk", "replacedisk", "revert",
                              "updatecloneinfo", "prepareremovedisk"}
      [] state = "dirty" -> {"start", "resize", "setrebuilding", "setlogging", "close", "snapshot", "reload",
                             "removedisk", "replacedisk", "revert", "setreplicamode", "prepareremovedisk",
                             "updatecloneinfo", "setcheckpoint"}
      [] state = "rebuilding" -> {"setrebuilding", "setlogging", "close", "reload", "setreplicamode",
                                  "setrevisioncounter", "updatecloneinfo", "setcheckpoint"}
      [] OTHER -> {}
=============================================================================
