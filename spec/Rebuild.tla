------------------------------ MODULE Rebuild ------------------------------
(***************************************************************************)
(* The rebuild of one replica from a healthy one, interleaved with         *)
(* foreground writes and kills (C07).  Files are write-id deltas: snapshot *)
(* k holds the writes between snapshot k-1 and k, the head holds the       *)
(* writes since the latest snapshot.  Steps of sync.Task.AddReplica:       *)
(* Add (snapshot on both, target WO), SyncFile (oldest first, one action   *)
(* per file), Reload, Verify (chains compared, counter equalised, RW).     *)
(***************************************************************************)
EXTENDS Integers, Sequences, FiniteSets, TLC

CONSTANTS MaxW, MaxSnap, Bug

VARIABLES sfiles,   \* source: sequence of [name, delta]
          shead,    \* source head delta
          srev,
          tfiles,   \* target: name -> delta (whatever is in its directory)
          tchain,   \* target's open chain (names, oldest first)
          thead, trev,
          tmode,    \* "none" | "WO" | "RW"
          reloaded, \* the task reached reloadAndVerify for this add
          talive, pc, acked, nextW, nsnap,
          joining   \* addReplica is between the snapshot and the attachment of the target (only with
                    \* "addUnlockedSnapshot": the controller lock released in between)

vars == <<sfiles, shead, srev, tfiles, tchain, thead, trev, tmode, reloaded, talive, pc, acked, nextW, nsnap, joining>>

Names(fs) == [i \in 1..Len(fs) |-> fs[i].name]
SImage == UNION ({sfiles[i].delta : i \in 1..Len(sfiles)} \cup {shead})
TImage == UNION ({tfiles[tchain[i]] : i \in 1..Len(tchain)} \cup {thead})

Init ==
    /\ sfiles = <<>> /\ shead = {} /\ srev = 1
    /\ tfiles = << >> /\ tchain = <<>> /\ thead = {} /\ trev = 1
    /\ tmode = "none" /\ reloaded = FALSE /\ talive = TRUE /\ pc = 0 /\ acked = {} /\ nextW = 1 /\ nsnap = 0
    /\ joining = FALSE

Write ==
    /\ nextW <= MaxW
    /\ shead' = shead \cup {nextW} /\ srev' = srev + 1
    /\ IF tmode \in {"WO", "RW"} /\ talive
       THEN thead' = thead \cup {nextW} /\ trev' = IF tmode = "RW" THEN trev + 1 ELSE trev
       ELSE UNCHANGED <<thead, trev>>
    /\ acked' = acked \cup {nextW} /\ nextW' = nextW + 1
    /\ UNCHANGED <<sfiles, tfiles, tchain, tmode, reloaded, talive, pc, nsnap, joining>>

\* addReplica: the same automatic snapshot on both sides, target attached WO
Add ==
    /\ tmode = "none" /\ talive /\ nsnap < MaxSnap /\ ~joining
    /\ LET n == nsnap + 1
       IN /\ sfiles' = Append(sfiles, [name |-> n, delta |-> shead]) /\ shead' = {}
          /\ tfiles' = [x \in DOMAIN tfiles \cup {n} |-> IF x = n THEN thead ELSE tfiles[x]]
          /\ tchain' = Append(tchain, n) /\ thead' = {}
          /\ nsnap' = n
    /\ reloaded' = FALSE
    \* isRevisionCountAndChainSame: equal counters and equal chains => nothing to copy
    /\ pc' = IF trev = srev /\ tchain' = Names(sfiles') THEN Len(sfiles') ELSE 0
    /\ IF "addUnlockedSnapshot" \in Bug
       THEN tmode' = tmode /\ joining' = TRUE      \* the target is attached by a later step
       ELSE tmode' = "WO" /\ joining' = FALSE
    /\ UNCHANGED <<srev, trev, talive, acked, nextW>>

\* (mutant only) second half of the add: the target joins the writers
AddJoin ==
    /\ joining /\ talive
    /\ tmode' = "WO" /\ joining' = FALSE
    /\ UNCHANGED <<sfiles, shead, srev, tfiles, tchain, thead, trev, reloaded, talive, pc, acked, nextW, nsnap>>

\* ssync of one snapshot file, oldest first
SyncFile ==
    /\ tmode = "WO" /\ talive /\ pc < Len(sfiles)
    /\ LET f == sfiles[pc + 1]
       IN tfiles' = [x \in DOMAIN tfiles \cup {f.name} |-> IF x = f.name THEN f.delta ELSE tfiles[x]]
    /\ pc' = pc + 1
    /\ UNCHANGED <<sfiles, shead, srev, tchain, thead, trev, tmode, reloaded, talive, acked, nextW, nsnap, joining>>

\* reload: the target's chain is whatever its head's parents say: the source's snapshots
Reload ==
    /\ tmode = "WO" /\ talive /\ (pc = Len(sfiles) \/ "reloadEarly" \in Bug)
    /\ tchain' = SubSeq(Names(sfiles), 1, pc)
    /\ reloaded' = TRUE
    /\ UNCHANGED <<sfiles, shead, srev, tfiles, thead, trev, tmode, talive, pc, acked, nextW, nsnap, joining>>

Verify ==
    /\ tmode = "WO" /\ talive /\ reloaded      \* the task asks for it only after reloadAndVerify's reload
    /\ (tchain = Names(sfiles) \/ "verifySkipsChain" \in Bug)
    /\ tmode' = "RW" /\ trev' = srev
    /\ UNCHANGED <<sfiles, shead, srev, tfiles, tchain, thead, reloaded, talive, pc, acked, nextW, nsnap, joining>>

KillTarget ==
    /\ talive /\ talive' = FALSE /\ tmode' = "none" /\ pc' = 0 /\ reloaded' = FALSE /\ joining' = FALSE
    /\ UNCHANGED <<sfiles, shead, srev, tfiles, tchain, thead, trev, acked, nextW, nsnap>>

RestartTarget ==
    /\ ~talive /\ talive' = TRUE
    /\ UNCHANGED <<sfiles, shead, srev, tfiles, tchain, thead, trev, tmode, reloaded, pc, acked, nextW, nsnap, joining>>

Next == Write \/ Add \/ AddJoin \/ SyncFile \/ Reload \/ Verify \/ KillTarget \/ RestartTarget
Spec == Init /\ [][Next]_vars

\* C07: at (and after) promotion the target is identical to its source
PromotedIdentical ==
    tmode = "RW" => /\ TImage = SImage
                    /\ tchain = Names(sfiles)
                    /\ \A i \in 1..Len(sfiles) : tfiles[sfiles[i].name] = sfiles[i].delta
                    /\ trev = srev
AckedHeld == tmode = "RW" => acked \subseteq TImage
=============================================================================
