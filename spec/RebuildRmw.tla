----------------------------- MODULE RebuildRmw -----------------------------
(***************************************************************************)
(* The rebuild of one replica at SECTOR granularity: one 4 KiB block of    *)
(* SPB sectors, chains of files on the source and on the target.  It       *)
(* complements Rebuild.tla (whole write ids, no sharing of blocks) and     *)
(* exists for one question: what does a sub-block write do that reaches    *)
(* the target while it is attached write-only and not yet synced?          *)
(*                                                                         *)
(*   as coded ("staleRMW" \in Bug): the replica engine stores whole        *)
(*   blocks.  A sub-block write is completed by read-modify-write from the *)
(*   target's OWN chain -- which is stale -- and the resulting head block  *)
(*   shadows whatever the sync later puts into the snapshots below it.     *)
(*   TLC exhibits the recorded finding of C07 (DESIGN.md 7): an            *)
(*   acknowledged write of the detached period is missing after promotion. *)
(*                                                                         *)
(*   what C07 requires (Bug = {}): sectors a write did not cover keep       *)
(*   falling through to the files below (modelled as sector-granular       *)
(*   files); then PromotedIdentical and AckedHeld hold.                    *)
(***************************************************************************)
EXTENDS Integers, Sequences, FiniteSets, TLC

CONSTANTS SPB, MaxW, MaxSnap, Bug

VARIABLES sfiles,   \* source chain, oldest first, head last: sequence of blocks
          tfiles,   \* target chain (same positions as the source's once synced)
          tmode,    \* "none" (detached) | "WO" | "RW"
          synced,   \* the snapshots below the target's head have been copied from the source
          nextW, acked

vars == <<sfiles, tfiles, tmode, synced, nextW, acked>>

Sectors == 1..SPB
Unset   == 0
Zero    == -1      \* the file holds the sector, with zeros (a block-granular file holds whole blocks)
\* a block of a file: per sector a write id or Unset (a file that holds nothing of the block
\* has all sectors Unset)
Empty == [i \in Sectors |-> Unset]

\* image of a chain: per sector the newest file that has it
RECURSIVE Img(_, _)
Img(fs, k) == IF k = 0 THEN Empty
              ELSE [i \in Sectors |-> IF fs[k][i] # Unset THEN fs[k][i] ELSE Img(fs, k - 1)[i]]
Image(fs) == Img(fs, Len(fs))

\* block-granular storage (as coded): a file either holds the whole block or nothing, so a
\* write stores the complete block it read, with the written sector replaced
WriteBlock(fs, sec, w) ==
    [fs EXCEPT ![Len(fs)] = [i \in Sectors |-> IF i = sec THEN w ELSE
                                  IF "staleRMW" \in Bug
                                  THEN (IF Image(fs)[i] = Unset THEN Zero ELSE Image(fs)[i])  \* rest: own chain
                                  ELSE fs[Len(fs)][i]]]                        \* rest: untouched, falls through

Init == /\ sfiles = <<Empty>> /\ tfiles = <<Empty>> /\ tmode = "RW" /\ synced = TRUE
        /\ nextW = 1 /\ acked = {}

Write(sec) ==
    /\ nextW <= MaxW
    /\ sfiles' = WriteBlock(sfiles, sec, nextW)
    /\ tfiles' = IF tmode \in {"WO", "RW"} THEN WriteBlock(tfiles, sec, nextW) ELSE tfiles
    /\ acked' = acked \cup {nextW} /\ nextW' = nextW + 1
    /\ UNCHANGED <<tmode, synced>>

Detach == /\ tmode = "RW" /\ tmode' = "none" /\ UNCHANGED <<sfiles, tfiles, synced, nextW, acked>>

\* addReplica: the same snapshot on both sides (a new empty head), target attached WO
Add == /\ tmode = "none" /\ Len(sfiles) <= MaxSnap
       /\ sfiles' = Append(sfiles, Empty) /\ tfiles' = Append(tfiles, Empty)
       /\ tmode' = "WO" /\ synced' = FALSE
       /\ UNCHANGED <<nextW, acked>>

\* the sync agent copies every snapshot (everything below the head) from the source
Sync == /\ tmode = "WO" /\ ~synced
        /\ tfiles' = [k \in 1..Len(sfiles) |-> IF k < Len(sfiles) THEN sfiles[k] ELSE tfiles[Len(tfiles)]]
        /\ synced' = TRUE
        /\ UNCHANGED <<sfiles, tmode, nextW, acked>>

Verify == /\ tmode = "WO" /\ synced /\ tmode' = "RW"
          /\ UNCHANGED <<sfiles, tfiles, synced, nextW, acked>>

Next == (\E s \in Sectors : Write(s)) \/ Detach \/ Add \/ Sync \/ Verify
Spec == Init /\ [][Next]_vars

Ids(img) == {img[i] : i \in Sectors} \ {Unset, Zero}
Norm(img) == [i \in Sectors |-> IF img[i] = Zero THEN Unset ELSE img[i]]
\* only the newest write of a sector is visible; an acknowledged write is "held" if it is still
\* visible on the source (it was not overwritten) and visible on the target
PromotedIdentical == tmode = "RW" => Norm(Image(tfiles)) = Norm(Image(sfiles))
AckedHeld == tmode = "RW" => Ids(Image(sfiles)) \subseteq Ids(Image(tfiles))
=============================================================================
