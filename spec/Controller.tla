------------------------------ MODULE Controller ------------------------------
(***************************************************************************)
(* The jiva controller: replica membership and modes, the read-only /      *)
(* quorum rule, fan-out of writes with majority acknowledgement, read      *)
(* fail-over, bootstrap election, volume snapshots and the checkpoint.     *)
(* Replicas are the environment: per address a small abstract replica      *)
(* (state, mode, revision counter, snapshot list, checkpoint, applied      *)
(* write ids).  DESIGN.md 3.3.                                             *)
(*                                                                         *)
(* One action per critical section under Controller.RWMutex.  addReplica   *)
(* is two sections (AddCheck / AddCommit, factory.Create runs unlocked in  *)
(* between); the per-backend monitoring goroutine is MonitorRun.  Fault    *)
(* assignments are action parameters: A = set of replicas whose handling   *)
(* of this call fails (error reply, timeout and connection loss look the   *)
(* same to the controller inside the critical section).                    *)
(***************************************************************************)
EXTENDS Integers, Sequences, FiniteSets, TLC

CONSTANTS
    RF,         \* configured replication factor
    Addr,       \* replica addresses (RF + 1 of them)
    MaxW,       \* write ids 1..MaxW
    Bug         \* as-coded deviations switched on (mutant configs)

VARIABLES
    cmode,      \* controller list + replicator map: Addr -> "NONE" "WO" "RW" "ERR"
    readOnly, rwCount, checkpoint,
    reg,        \* registered replicas: Addr -> [on, rev, st]
    maxRev,     \* MaxRevReplica ("" = none)
    signalled,  \* StartSignalled
    pcAdd,      \* Addr -> "idle" | "checked"   (between the two sections of addReplica)
    monWait,    \* Addr -> BOOLEAN: the live backend's monitor goroutine waits
    monNote,    \* Addr -> Nat: notified monitor goroutines that have not run yet
    \* environment: abstract replicas
    rstate,     \* Addr -> "closed" | "open" | "down"
    rmode,      \* Addr -> "INIT" "WO" "RW"
    rrev,       \* Addr -> Nat   revision counter
    rreb,       \* Addr -> BOOLEAN   persisted rebuilding flag
    rsnaps,     \* Addr -> Seq of snapshot names, oldest first
    rcp,        \* Addr -> persisted checkpoint
    rlog,       \* Addr -> set of write ids applied
    rsnapAt,    \* Addr -> [name -> set of write ids at snapshot time]
    \* observation / history
    acked,      \* write ids reported successful
    nextW,      \* next write id
    calls,      \* Addr -> number of data-path calls received (for RemovedSilent)
    res, op, sig, served

vars == <<cmode, readOnly, rwCount, checkpoint, reg, maxRev, signalled, pcAdd, monWait, monNote,
          rstate, rmode, rrev, rreb, rsnaps, rcp, rlog, rsnapAt, acked, nextW, calls,
          res, op, sig, served>>

ctl == <<cmode, readOnly, rwCount, checkpoint, reg, maxRev, signalled, pcAdd, monWait, monNote>>
env == <<rstate, rmode, rrev, rreb, rsnaps, rcp, rlog, rsnapAt>>

-----------------------------------------------------------------------------
Quorum == (RF \div 2) + 1
NoReg == [on |-> FALSE, rev |-> 0, st |-> ""]
Members == {a \in Addr : cmode[a] # "NONE"}
RWs(cm) == {a \in Addr : cm[a] = "RW"}
WOs(cm) == {a \in Addr : cm[a] = "WO"}
Writers == {a \in Addr : cmode[a] \in {"RW", "WO"}}     \* non-ERR backends
Readers == RWs(cmode)
Registered == {a \in Addr : reg[a].on}
SetMax(S) == CHOOSE x \in S : \A y \in S : y <= x
Last(s) == s[Len(s)]

Called(name, args) == op' = [name |-> name, args |-> args]

\* UpdateVolStatus
VolStatus(cm) == [ro |-> Cardinality(RWs(cm)) < Quorum, n |-> Cardinality(RWs(cm))]

\* UpdateCheckpoint on membership cm with replica snapshot lists sn; F = replicas
\* whose SetCheckpoint call fails.  Returns [cp, rcp]
Checkpointed(cm, sn, rc, F) ==
    LET M == {a \in Addr : cm[a] # "NONE"}
        allRW == Cardinality(RWs(cm)) = RF /\ M = RWs(cm)
        haveSnap == \A a \in M : Len(sn[a]) >= 1
        same == \A a, b \in M : Last(sn[a]) = Last(sn[b])
    IN IF Cardinality(RWs(cm)) = RF /\ allRW /\ haveSnap /\ same
       THEN LET latest == Last(sn[CHOOSE a \in M : TRUE])
            IN [cp |-> IF F \cap M = {} THEN latest ELSE "",
                rcp |-> [a \in Addr |-> IF a \in M \ F THEN latest ELSE rc[a]]]
       ELSE [cp |-> "", rcp |-> rc]

\* the tail shared by every membership change: status + checkpoint
Settle(cm, sn, F) ==
    /\ readOnly' = VolStatus(cm).ro
    /\ rwCount' = VolStatus(cm).n
    /\ checkpoint' = Checkpointed(cm, sn, rcp, F).cp
    /\ rcp' = Checkpointed(cm, sn, rcp, F).rcp

\* RemoveReplicaNoLock on a set D of present addresses (order irrelevant)
Removed(cm, D) == [a \in Addr |-> IF a \in D THEN "NONE" ELSE cm[a]]

\* bookkeeping of RemoveReplicaNoLock besides the list
RemoveBook(D) ==
    /\ reg' = [a \in Addr |-> IF a \in D \cap Members THEN NoReg ELSE reg[a]]
    /\ IF Members # {} /\ Members \subseteq D      \* the last replica leaves: frontend down
       THEN maxRev' = "" /\ signalled' = FALSE
       ELSE UNCHANGED <<maxRev, signalled>>
    \* each removed backend is closed: its monitor goroutine is notified (once)
    /\ monNote' = [a \in Addr |-> IF a \in D /\ monWait[a] THEN monNote[a] + 1 ELSE monNote[a]]
    /\ monWait' = [a \in Addr |-> IF a \in D THEN FALSE ELSE monWait[a]]

-----------------------------------------------------------------------------
Init ==
    /\ cmode = [a \in Addr |-> "NONE"]
    /\ readOnly = TRUE /\ rwCount = 0 /\ checkpoint = ""
    /\ reg = [a \in Addr |-> NoReg] /\ maxRev = "" /\ signalled = FALSE
    /\ pcAdd = [a \in Addr |-> "idle"]
    /\ monWait = [a \in Addr |-> FALSE] /\ monNote = [a \in Addr |-> 0]
    /\ rstate = [a \in Addr |-> "closed"] /\ rmode = [a \in Addr |-> "INIT"]
    /\ rrev \in [Addr -> {1}] /\ rreb = [a \in Addr |-> FALSE]
    /\ rsnaps = [a \in Addr |-> <<>>] /\ rcp = [a \in Addr |-> ""]
    /\ rlog = [a \in Addr |-> {}] /\ rsnapAt = [a \in Addr |-> << >>]
    /\ acked = {} /\ nextW = 1 /\ calls = [a \in Addr |-> 0]
    /\ res = "ok" /\ op = [name |-> "Init"] /\ sig = <<>> /\ served = ""

-----------------------------------------------------------------------------
(* Bootstrap: registration, election, start (C09) *)

\* candidates of the election: registered, not in the middle of a rebuild
Cands(rg) == {a \in Addr : rg[a].on /\ rg[a].st # "rebuilding"}
BestRev(rg) == SetMax({rg[a].rev : a \in Cands(rg)})
Best(rg) == {a \in Cands(rg) : rg[a].rev = BestRev(rg)}

\* the registry as the election sees it, and the replicas it may elect
RegAfter(a, rev, st, af) ==
    LET rg1 == [reg EXCEPT ![a] = [on |-> TRUE, rev |-> rev, st |-> st]]
    IN IF signalled /\ a # maxRev /\ af THEN [rg1 EXCEPT ![maxRev] = NoReg] ELSE rg1
ElectionPool(a, rev, st, af) ==
    IF "electRegistrant" \in Bug THEN {a}
    ELSE IF Cands(RegAfter(a, rev, st, af)) = {} THEN {a} ELSE Best(RegAfter(a, rev, st, af))

\* Register(a): sf = the start signal fails, af = the liveness probe of the
\* previously signalled replica fails, pick = the replica elected (logged)
Register(a, rev, st, sf, af, pick) ==
    /\ Called("Register", [a |-> a, rev |-> rev, st |-> st, sf |-> sf, af |-> af])
    /\ served' = ""
    /\ LET rg1 == [reg EXCEPT ![a] = [on |-> TRUE, rev |-> rev, st |-> st]]
       IN
       IF Members # {} THEN       \* replicas already attached: only recorded
            /\ reg' = rg1 /\ sig' = <<>> /\ res' = "ok"
            /\ UNCHANGED <<maxRev, signalled>>
       ELSE IF signalled /\ a = maxRev THEN      \* signalled replica registers again: re-signal
            IF sf \/ st = "rebuilding" THEN
                 /\ sig' = <<[to |-> a, action |-> "start", torev |-> rev, best |-> rev,
                              nreg |-> Cardinality({x \in Addr : rg1[x].on}), holders |-> {}]>>
                 /\ IF sf THEN /\ reg' = [rg1 EXCEPT ![a] = NoReg] /\ maxRev' = "" /\ signalled' = FALSE
                               /\ res' = "refused"
                    ELSE reg' = rg1 /\ res' = "ok" /\ UNCHANGED <<maxRev, signalled>>
            ELSE \* ... and, as coded, the call then falls through to the election: a replica that
                 \* registered with a higher revision count in the meantime takes over and is
                 \* signalled as well (sig records the last signal; only maxRev can start)
                 /\ pick \in Addr /\ rg1[pick].on
                 /\ reg' = rg1 /\ maxRev' = pick /\ signalled' = TRUE /\ res' = "ok"
                 /\ sig' = IF Cardinality({x \in Addr : rg1[x].on}) >= Quorum
                            THEN <<[to |-> pick, action |-> "start", torev |-> rg1[pick].rev,
                                    best |-> BestRev(rg1),
                                    nreg |-> Cardinality({x \in Addr : rg1[x].on}),
                                    holders |-> {x \in Cands(rg1) : acked \subseteq rlog[x]}]>>
                            ELSE <<[to |-> a, action |-> "start", torev |-> rev, best |-> rev,
                                    nreg |-> Cardinality({x \in Addr : rg1[x].on}), holders |-> {}]>>
       ELSE IF signalled /\ ~af THEN             \* somebody else is already signalled and alive
            /\ reg' = rg1 /\ sig' = <<>> /\ res' = "ok"
            /\ UNCHANGED <<maxRev, signalled>>
       ELSE \* election (after dropping an unreachable leader, if any)
            LET rg2 == IF signalled THEN [rg1 EXCEPT ![maxRev] = NoReg] ELSE rg1
                mr0 == IF signalled THEN "" ELSE maxRev
            IN IF st = "rebuilding" THEN
                    /\ reg' = rg2 /\ maxRev' = mr0 /\ signalled' = FALSE
                    /\ sig' = <<>> /\ res' = "ok"
               ELSE /\ pick \in Addr /\ rg2[pick].on      \* whom the controller elected (SignalsMax judges it)
                    /\ IF Cardinality({x \in Addr : rg2[x].on}) >= Quorum
                       THEN /\ sig' = <<[to |-> pick, action |-> "start", torev |-> rg2[pick].rev,
                                         best |-> BestRev(rg2),
                                         nreg |-> Cardinality({x \in Addr : rg2[x].on}),
                                         holders |-> {x \in Cands(rg2) : acked \subseteq rlog[x]}]>>
                            /\ IF sf THEN /\ reg' = [rg2 EXCEPT ![pick] = NoReg]
                                          /\ maxRev' = "" /\ signalled' = FALSE
                                          /\ res' = "refused"
                               ELSE reg' = rg2 /\ maxRev' = pick /\ signalled' = TRUE /\ res' = "ok"
                       ELSE /\ reg' = rg2 /\ maxRev' = pick /\ signalled' = FALSE
                            /\ sig' = <<>> /\ res' = "ok"
    /\ UNCHANGED <<cmode, readOnly, rwCount, checkpoint, pcAdd, monWait, monNote, env, acked,
                   nextW, calls>>

\* a quorum-type replica registers: kept in a registry of its own; during a bootstrap it neither
\* counts towards the majority of (data) replicas nor is it a candidate
RegisterQuorum ==
    /\ Called("RegisterQuorum", << >>)
    /\ res' = "ok" /\ served' = "" /\ sig' = <<>>
    /\ UNCHANGED <<ctl, env, acked, nextW, calls>>

\* Start(a): only the signalled replica; attaches it RW (no sync, no snapshot)
\* cs = the clone status the replica reports while the controller polls it ("" / "NA" /
\* "completed": it may serve; "error": a failed clone -- the replica is attached, found failed,
\* removed again and the start fails; the frontend is still down then, so the removal leaves the
\* election state as it is)
StartC(a, cf, cs) ==
    /\ Called("Start", [a |-> a, cf |-> cf])
    /\ served' = ""
    /\ IF Members # {} THEN      \* already started: no-op
            /\ res' = "ok" /\ sig' = <<>>
            /\ UNCHANGED <<ctl, env, acked, nextW, calls>>
       ELSE IF a # maxRev \/ maxRev = "" THEN
            /\ res' = "refused" /\ sig' = <<>>
            /\ UNCHANGED <<ctl, env, acked, nextW, calls>>
       ELSE IF cf \/ rstate[a] # "closed" THEN   \* factory.Create failed
            /\ res' = "refused" /\ sig' = <<>>
            /\ maxRev' = "" /\ signalled' = FALSE      \* a new election is needed
            /\ UNCHANGED <<cmode, readOnly, rwCount, checkpoint, reg, pcAdd, monWait, monNote, env,
                           acked, nextW, calls>>
       ELSE IF cs = "error" THEN
            /\ res' = "refused" /\ sig' = <<>>
            /\ reg' = [reg EXCEPT ![a] = NoReg]
            /\ monNote' = [monNote EXCEPT ![a] = @ + 1]     \* its monitor was started and is notified
            \* (the backend is only told to stop monitoring: the replica stays open, write-only)
            /\ rstate' = [rstate EXCEPT ![a] = "open"]
            /\ rmode' = [rmode EXCEPT ![a] = "WO"]
            /\ UNCHANGED <<cmode, readOnly, rwCount, checkpoint, maxRev, signalled, pcAdd, monWait,
                           rrev, rreb, rsnaps, rcp, rlog, rsnapAt, acked, nextW, calls>>
       ELSE LET cm == [cmode EXCEPT ![a] = "RW"]
            IN /\ cmode' = cm
               /\ rstate' = [rstate EXCEPT ![a] = "open"]
               /\ rmode' = [rmode EXCEPT ![a] = "RW"]
               /\ monWait' = [monWait EXCEPT ![a] = TRUE]
               /\ sig' = <<>>      \* "add" signals to the others are not constrained here
               /\ Settle(cm, rsnaps, {})
               /\ res' = "ok"
               \* a volume restarted from an electorate in which nobody held an acknowledged
               \* write has lost it (the election guarantee is ElectedFreshest)
               /\ acked' = acked \cap rlog[a]
               \* (a replica process clears a left-over rebuilding flag before it registers / asks
               \* to be added: sync.Task checkAndResetFailedRebuild)
               /\ rreb' = [rreb EXCEPT ![a] = FALSE]
               /\ UNCHANGED <<reg, maxRev, signalled, pcAdd, monNote, rrev, rsnaps, rlog,
                              rsnapAt, nextW, calls>>

Start(a, cf) == StartC(a, cf, "")

-----------------------------------------------------------------------------
(* Membership: add (two sections), promote, remove, set mode (C03 C07 C18) *)

\* canAdd + verifyReplicationFactor.  tk = the newcomer has a higher revision
\* than the current WO replica (takeover)
CanAdd(a, tk) ==
    /\ cmode[a] = "NONE"
    /\ (WOs(cmode) # {} => tk)

AddCheck(a, tk) ==
    /\ Called("AddCheck", [a |-> a, tk |-> tk])
    /\ served' = "" /\ sig' = <<>>
    /\ pcAdd[a] = "idle"
    /\ IF ~CanAdd(a, tk) THEN
            /\ res' = "refused"
            /\ UNCHANGED <<ctl, env, acked, nextW, calls>>
       ELSE \* a takeover removes the current WO replica in this section
            LET D  == IF WOs(cmode) # {} THEN WOs(cmode) ELSE {}
                cm == Removed(cmode, D)
            IN IF Cardinality({x \in Addr : cm[x] # "NONE"}) >= RF THEN
                    \* replication factor reached (after the takeover removal)
                    /\ res' = "refused"
                    /\ cmode' = cm
                    /\ RemoveBook(D)
                    /\ IF D # {} THEN Settle(cm, rsnaps, {})
                       ELSE UNCHANGED <<readOnly, rwCount, checkpoint, rcp>>
                    /\ UNCHANGED <<pcAdd, rstate, rmode, rrev, rreb, rsnaps, rlog, rsnapAt,
                                   acked, nextW, calls>>
               ELSE /\ res' = "ok"
                    /\ cmode' = cm
                    /\ RemoveBook(D)
                    /\ IF D # {} THEN Settle(cm, rsnaps, {})
                       ELSE UNCHANGED <<readOnly, rwCount, checkpoint, rcp>>
                    /\ pcAdd' = [pcAdd EXCEPT ![a] = "checked"]
                    /\ UNCHANGED <<rstate, rmode, rrev, rreb, rsnaps, rlog, rsnapAt, acked, nextW, calls>>

\* second section: factory.Create happened in between (cf = it failed);
\* snapshot n on every attached replica and on the newcomer, newcomer WO.
\* S = replicas whose snapshot call fails
\* S: the fault points of this add -- the addresses whose snapshot call fails, and the token
\* ModeFail when the joiner's setreplicamode(WO) fails
ModeFail == "modefail"
AddCommit(a, cf, tk, n, S) ==
    /\ Called("AddCommit", [a |-> a, cf |-> cf, tk |-> tk, name |-> n, S |-> S])
    /\ served' = "" /\ sig' = <<>>
    /\ pcAdd[a] = "checked"
    /\ pcAdd' = [pcAdd EXCEPT ![a] = "idle"]
    /\ IF cf \/ rstate[a] # "closed" THEN      \* Create failed: nothing attached
            /\ res' = "refused"
            /\ UNCHANGED <<cmode, readOnly, rwCount, checkpoint, reg, maxRev, signalled, monWait,
                           monNote, env, acked, nextW, calls>>
       ELSE
        \* the second verifyReplicationFactor counts the members as they are (a WO replica
        \* included) BEFORE addReplicaNoLock / canAdd could take a lower-revision WO replica over:
        \* a full volume refuses the add and nothing is taken over
        LET full == ("addNoSecondRFCheck" \notin Bug) /\
                    Cardinality({x \in Addr : cmode[x] # "NONE"}) >= RF
            D   == IF ~full /\ cmode[a] = "NONE" /\ WOs(cmode) # {} /\ tk THEN WOs(cmode) ELSE {}
            cm0 == Removed(cmode, D)
            Ws  == {x \in Addr : cm0[x] \in {"RW", "WO"}}     \* snapshot goes to non-ERR backends
            \* RemainSnapshots has no answer when every attached backend is ERR
            noValid == {x \in Addr : cm0[x] # "NONE"} # {} /\ Ws = {}
            okAdd == cmode[a] = "NONE" /\ (WOs(cmode) = {} \/ tk) /\ ~full /\ ~noValid
            snapOK == S \cap (Ws \cup {a}) = {}
        IN  \* the replica has been opened by Create in any case
            /\ rstate' = [rstate EXCEPT ![a] = "open"]
            /\ IF ~okAdd THEN
                    /\ res' = "refused"
                    /\ cmode' = cm0 /\ RemoveBook(D)
                    /\ IF D # {} THEN Settle(cm0, rsnaps, {})
                       ELSE UNCHANGED <<readOnly, rwCount, checkpoint, rcp>>
                    /\ UNCHANGED <<rmode, rrev, rreb, rsnaps, rlog, rsnapAt, acked, nextW, calls>>
               ELSE
                LET took == (Ws \cup {a}) \ S       \* replicas that took the snapshot
                    sn  == [x \in Addr |-> IF x \in took /\ (snapOK \/ x \in Ws \ S)
                                           THEN Append(rsnaps[x], n) ELSE rsnaps[x]]
                IN IF snapOK /\ ModeFail \in S THEN
                        \* the joiner took the snapshot but refuses the switch to WO: the add fails
                        \* after the snapshot, nothing is attached (and the joiner stays open)
                        /\ res' = "refused"
                        /\ cmode' = cm0 /\ RemoveBook(D)
                        /\ rsnaps' = sn
                        /\ IF D # {} THEN Settle(cm0, rsnaps', {})
                           ELSE UNCHANGED <<readOnly, rwCount, checkpoint, rcp>>
                        /\ UNCHANGED <<rmode, rrev, rreb, rlog, rsnapAt, acked, nextW, calls>>
                   ELSE IF ~snapOK THEN
                        \* a failed snapshot aborts the add (nobody is marked)
                        /\ res' = "refused"
                        /\ cmode' = cm0 /\ RemoveBook(D)
                        /\ rsnaps' = [x \in Addr |-> IF x \in Ws \ S THEN Append(rsnaps[x], n)
                                                     ELSE rsnaps[x]]
                        /\ IF D # {} THEN Settle(cm0, rsnaps', {})
                           ELSE UNCHANGED <<readOnly, rwCount, checkpoint, rcp>>
                        /\ UNCHANGED <<rmode, rrev, rreb, rlog, rsnapAt, acked, nextW, calls>>
                   ELSE LET cm == [cm0 EXCEPT ![a] = "WO"]
                        IN /\ res' = "ok"
                           /\ cmode' = cm
                           /\ rsnaps' = sn
                           /\ rmode' = [rmode EXCEPT ![a] = "WO"]
                           /\ reg' = [x \in Addr |-> IF x \in D THEN NoReg ELSE reg[x]]
                           /\ UNCHANGED <<maxRev, signalled>>
                           /\ monNote' = [x \in Addr |-> IF x \in D /\ monWait[x]
                                                         THEN monNote[x] + 1 ELSE monNote[x]]
                           /\ monWait' = [x \in Addr |-> IF x = a THEN TRUE
                                                         ELSE IF x \in D THEN FALSE ELSE monWait[x]]
                           /\ Settle(cm, sn, {})
                           /\ rreb' = [rreb EXCEPT ![a] = FALSE]
                           /\ UNCHANGED <<rrev, rlog, rsnapAt, acked, nextW, calls>>

\* the file sync of the rebuild (environment): the WO replica receives the
\* source's snapshots and everything applied up to the add-time snapshot
RebuildCopy(a, src) ==
    /\ Called("RebuildCopy", [a |-> a, src |-> src])
    /\ served' = "" /\ sig' = <<>> /\ res' = "ok"
    /\ cmode[a] = "WO" /\ cmode[src] = "RW"
    /\ rsnaps' = [rsnaps EXCEPT ![a] = rsnaps[src]]
    /\ rlog' = [rlog EXCEPT ![a] = rlog[a] \cup rlog[src]]
    /\ rsnapAt' = [rsnapAt EXCEPT ![a] = rsnapAt[src]]
    /\ rreb' = [rreb EXCEPT ![a] = TRUE]       \* the sync task flags the replica while it copies
    /\ UNCHANGED <<ctl, rstate, rmode, rrev, rcp, acked, nextW, calls>>

\* VerifyRebuildReplica(a): chains compared, counter equalised, then RW
\* sync.Task.AddReplica sets the rebuilding flag of the (open, WO) replica before it asks for the
\* verification; a refused verification leaves it set
VerifyRefused(a) ==
    /\ rreb' = [rreb EXCEPT ![a] = @ \/ (cmode[a] = "WO" /\ rstate[a] = "open")]
    /\ UNCHANGED <<ctl, rstate, rmode, rrev, rsnaps, rcp, rlog, rsnapAt, acked, nextW, calls>>

VerifyRebuild(a, F) ==
    /\ Called("VerifyRebuild", [a |-> a, F |-> F])
    /\ served' = "" /\ sig' = <<>>
    /\ IF cmode[a] = "NONE" \/ RWs(cmode) = {} THEN
            res' = "refused" /\ VerifyRefused(a)
       ELSE IF cmode[a] = "RW" THEN
            res' = "ok" /\ UNCHANGED <<ctl, env, acked, nextW, calls>>
       ELSE IF cmode[a] # "WO" THEN
            res' = "refused" /\ UNCHANGED <<ctl, env, acked, nextW, calls>>
       ELSE \E src \in RWs(cmode) :
            \* the chains must match, and the checkpoint the rebuilt replica persisted (from an
            \* earlier life) must be a snapshot of the source: otherwise the histories diverged
            IF (\/ rsnaps[a] # rsnaps[src]
                \/ (rcp[a] # "" /\ \A i \in 1..Len(rsnaps[src]) : rsnaps[src][i] # rcp[a]))
               /\ "verifySkipsChain" \notin Bug THEN
                 res' = "refused" /\ VerifyRefused(a)
            ELSE LET cm == [cmode EXCEPT ![a] = "RW"]
                 IN /\ res' = "ok"
                    /\ cmode' = cm
                    /\ rmode' = [rmode EXCEPT ![a] = "RW"]
                    /\ rrev' = [rrev EXCEPT ![a] = rrev[src]]
                    /\ Settle(cm, rsnaps, F)
                    /\ rreb' = [rreb EXCEPT ![a] = FALSE]     \* ... and clears the flag after the promotion
                    /\ UNCHANGED <<reg, maxRev, signalled, pcAdd, monWait, monNote, rstate,
                                   rsnaps, rlog, rsnapAt, acked, nextW, calls>>

RemoveReplica(a) ==
    /\ Called("RemoveReplica", [a |-> a])
    /\ served' = "" /\ sig' = <<>> /\ res' = "ok"
    /\ IF cmode[a] = "NONE" THEN UNCHANGED <<ctl, env, acked, nextW, calls>>
       ELSE LET cm == Removed(cmode, {a})
            IN /\ cmode' = cm /\ RemoveBook({a}) /\ Settle(cm, rsnaps, {})
               /\ UNCHANGED <<pcAdd, rstate, rmode, rrev, rreb, rsnaps, rlog, rsnapAt, acked,
                              nextW, calls>>

\* PUT /v1/replicas/{id}: operator sets ERR (forcing RW is outside the model)
SetModeErr(a) ==
    /\ Called("SetMode", [a |-> a, mode |-> "ERR"])
    /\ served' = "" /\ sig' = <<>> /\ res' = "ok"
    /\ IF cmode[a] \in {"NONE", "ERR"} THEN UNCHANGED <<ctl, env, acked, nextW, calls>>
       ELSE LET cm == [cmode EXCEPT ![a] = "ERR"]
            IN /\ cmode' = cm
               /\ monNote' = [monNote EXCEPT ![a] = IF monWait[a] THEN @ + 1 ELSE @]
               /\ monWait' = [monWait EXCEPT ![a] = FALSE]
               /\ IF "skipRoUpdate" \in Bug
                  THEN UNCHANGED <<readOnly, rwCount>>
                  ELSE readOnly' = VolStatus(cm).ro /\ rwCount' = VolStatus(cm).n
               /\ UNCHANGED <<checkpoint, reg, maxRev, signalled, pcAdd, env, acked, nextW, calls>>

\* PUT /v1/replicas/{id} with anything but RW / ERR (WO, a case variant, nothing): refused, no effect
SetModeInvalid(a, m) ==
    /\ Called("SetMode", [a |-> a, mode |-> m])
    /\ m \notin {"RW", "ERR"}
    /\ served' = "" /\ sig' = <<>> /\ res' = "refused"
    /\ UNCHANGED <<ctl, env, acked, nextW, calls>>

\* the monitoring goroutine of a closed / failed backend finally runs: it
\* removes whatever is attached under that address
MonitorRun(a) ==
    /\ Called("MonitorRun", [a |-> a])
    /\ served' = "" /\ sig' = <<>> /\ res' = "ok"
    /\ monNote[a] > 0
    /\ IF cmode[a] = "NONE" THEN
            /\ monNote' = [monNote EXCEPT ![a] = @ - 1]
            /\ UNCHANGED <<cmode, readOnly, rwCount, checkpoint, reg, maxRev, signalled, pcAdd,
                           monWait, env, acked, nextW, calls>>
       ELSE LET cm == Removed(cmode, {a})
            IN /\ cmode' = cm
               /\ reg' = [reg EXCEPT ![a] = NoReg]
               /\ IF Members = {a} THEN maxRev' = "" /\ signalled' = FALSE
                  ELSE UNCHANGED <<maxRev, signalled>>
               /\ monNote' = [monNote EXCEPT ![a] = (@ - 1) + (IF monWait[a] THEN 1 ELSE 0)]
               /\ monWait' = [monWait EXCEPT ![a] = FALSE]
               /\ Settle(cm, rsnaps, {})
               /\ UNCHANGED <<pcAdd, rstate, rmode, rrev, rreb, rsnaps, rlog, rsnapAt, acked,
                              nextW, calls>>

-----------------------------------------------------------------------------
(* I/O (C02 C03 C04 C05) *)

\* common tail of an I/O call in which the replicas in Fl failed: they are
\* marked ERR and removed inside the same critical section
Detach(Fl) ==
    LET cm == Removed(cmode, Fl)
    IN /\ cmode' = cm
       /\ RemoveBook(Fl)
       /\ IF Fl # {} THEN Settle(cm, rsnaps, {})
          ELSE UNCHANGED <<readOnly, rwCount, checkpoint, rcp>>

Majority(n, failed) == (n - failed) * 2 > n

\* Write: id w, A = armed faults.  kind = "Write" | "Sync" | "Unmap"
\* X = replicas (among the failing ones) whose data connection was lost (timeout,
\* drop): such a replica process closes its volume and restarts
Mutate(kind, A, w, X) ==
    /\ Called(kind, [A |-> A, w |-> w])
    /\ served' = "" /\ sig' = <<>>
    /\ IF readOnly /\ "writeIgnoresRO" \notin Bug THEN     \* refused without touching any replica
            /\ res' = "refused"
            /\ UNCHANGED <<ctl, env, acked, nextW, calls>>
       ELSE IF Readers = {} THEN                    \* no RW backend: replicator refuses
            /\ res' = "refused"
            /\ UNCHANGED <<ctl, env, acked, nextW, calls>>
       ELSE LET Ws == Writers
                Fl == A \cap Ws
                applied == Ws \ Fl
                maj == IF "majorityGE" \in Bug
                       THEN (Cardinality(Ws) - Cardinality(Fl)) * 2 >= Cardinality(Ws)
                       ELSE Majority(Cardinality(Ws), Cardinality(Fl))
                rwLeft == RWs(cmode) \ Fl # {}
                ok == maj /\ rwLeft
            IN /\ res' = IF ok THEN "ok" ELSE "failed"
               /\ calls' = [a \in Addr |-> IF a \in Ws THEN calls[a] + 1 ELSE calls[a]]
               /\ IF kind = "Write"
                  THEN /\ rlog' = [a \in Addr |-> IF a \in applied THEN rlog[a] \cup {w} ELSE rlog[a]]
                       /\ rrev' = [a \in Addr |-> IF a \in applied /\ rmode[a] = "RW"
                                                  THEN rrev[a] + 1 ELSE rrev[a]]
                       /\ acked' = IF ok THEN acked \cup {w} ELSE acked
                       /\ nextW' = w + 1
                  ELSE UNCHANGED <<rlog, rrev, acked, nextW>>
               /\ IF "keepFailedWriters" \in Bug
                  THEN UNCHANGED <<cmode, reg, maxRev, signalled, monNote, monWait, readOnly,
                                   rwCount, checkpoint, rcp>>
                  ELSE Detach(Fl)
               /\ X \subseteq Fl
               /\ rstate' = [a \in Addr |-> IF a \in X THEN "closed" ELSE rstate[a]]
               /\ rmode' = [a \in Addr |-> IF a \in X THEN "INIT" ELSE rmode[a]]
               /\ UNCHANGED <<pcAdd, rreb, rsnaps, rsnapAt>>

\* I/O outside [0, volume size): refused by the controller's range check, no replica is touched
\* (C01; for a write the read-only test comes first -- refused either way)
OobIO(kind) ==
    /\ Called(kind, [oob |-> TRUE])
    /\ res' = "refused" /\ served' = "" /\ sig' = <<>>
    /\ UNCHANGED <<ctl, env, acked, nextW, calls>>

\* Read: A = armed faults, T = readers tried and failed, s = serving replica ("" = none)
Read(A, T, s, X) ==
    /\ Called("Read", [A |-> A, T |-> T])
    /\ sig' = <<>>
    /\ IF Members = {} \/ Readers = {} THEN
            /\ res' = "refused" /\ served' = ""
            /\ UNCHANGED <<ctl, env, acked, nextW, calls>>
       ELSE /\ T \subseteq A \cap Readers
            /\ IF Readers \subseteq A
               THEN T = Readers /\ s = "" /\ res' = "failed"
               ELSE s \in (IF "readersIncludeWO" \in Bug THEN Writers ELSE Readers) \ A /\ res' = "ok"
            /\ served' = s
            /\ calls' = [a \in Addr |-> IF a \in T \cup {s} THEN calls[a] + 1 ELSE calls[a]]
            /\ Detach(T)
            /\ X \subseteq T
            /\ rstate' = [a \in Addr |-> IF a \in X THEN "closed" ELSE rstate[a]]
            /\ rmode' = [a \in Addr |-> IF a \in X THEN "INIT" ELSE rmode[a]]
            /\ UNCHANGED <<pcAdd, rrev, rreb, rsnaps, rlog, rsnapAt, acked, nextW>>

-----------------------------------------------------------------------------
(* Volume snapshot and checkpoint (C13) *)

\* Snapshot(n): refused unless all RF replicas are RW; S = replicas whose
\* snapshot call fails (they are marked ERR; the monitor removes them later)
Snapshot(n, S) ==
    /\ Called("Snapshot", [name |-> n, S |-> S])
    /\ served' = "" /\ sig' = <<>>
    /\ IF (rwCount # RF /\ "snapNoGate" \notin Bug) \/ RWs(cmode) = {}
          \/ \E a \in RWs(cmode) : \E i \in 1..Len(rsnaps[a]) : rsnaps[a][i] = n
       THEN res' = "refused" /\ UNCHANGED <<ctl, env, acked, nextW, calls>>
       ELSE LET Ws == Writers
                Fl == S \cap Ws
                cm == [a \in Addr |-> IF a \in Fl THEN "ERR" ELSE cmode[a]]
            IN /\ rsnaps' = [a \in Addr |-> IF a \in Ws \ Fl THEN Append(rsnaps[a], n) ELSE rsnaps[a]]
               /\ rsnapAt' = [a \in Addr |-> IF a \in Ws \ Fl
                                THEN [x \in DOMAIN rsnapAt[a] \cup {n} |->
                                        IF x = n THEN rlog[a] ELSE rsnapAt[a][x]]
                                ELSE rsnapAt[a]]
               /\ cmode' = cm
               /\ monNote' = [a \in Addr |-> IF a \in Fl /\ monWait[a] THEN monNote[a] + 1 ELSE monNote[a]]
               /\ monWait' = [a \in Addr |-> IF a \in Fl THEN FALSE ELSE monWait[a]]
               /\ res' = IF RWs(cm) # {} THEN "ok" ELSE "failed"
               /\ IF "skipRoUpdate" \in Bug THEN UNCHANGED <<readOnly, rwCount>>
                  ELSE readOnly' = VolStatus(cm).ro /\ rwCount' = VolStatus(cm).n
               /\ UNCHANGED <<checkpoint, reg, maxRev, signalled, pcAdd,
                              rstate, rmode, rrev, rreb, rcp, rlog, acked, nextW, calls>>

\* Controller.Revert(n): refused unless there is a RW replica and no rebuilding (WO) one;
\* every RW replica is asked to revert to snapshot n -- its live image becomes the snapshot's
\* image, its chain ends at n.  A replica whose call fails (F: injected; it does not have the
\* snapshot; its REST state is `rebuilding`) is marked ERR, the call fails only if nobody
\* reverted.  What had been acknowledged after the snapshot is given up on purpose.  The
\* checkpoint is not touched (it may name a snapshot that left the chain: the next
\* UpdateCheckpoint re-derives it).
IdxOfName(sq, n) == IF \E i \in 1..Len(sq) : sq[i] = n
                    THEN CHOOSE i \in 1..Len(sq) : sq[i] = n /\ \A j \in 1..Len(sq) : sq[j] = n => j <= i
                    ELSE 0
RevertVol(n, F) ==
    /\ Called("Revert", [name |-> n, F |-> F])
    /\ served' = "" /\ sig' = <<>>
    /\ IF RWs(cmode) = {} \/ WOs(cmode) # {}
       THEN res' = "refused" /\ UNCHANGED <<ctl, env, acked, nextW, calls>>
       ELSE LET RW   == RWs(cmode)
                bad  == {a \in RW : a \in F \/ rreb[a] \/ IdxOfName(rsnaps[a], n) = 0 \/ rstate[a] # "open"}
                good == RW \ bad
                cm   == [a \in Addr |-> IF a \in bad THEN "ERR" ELSE cmode[a]]
            IN \* (environment: somebody reverts.  A revert that fails on EVERY replica returns with
               \* the frontend shut down; the last removal then skips the reset of the bootstrap
               \* state -- the frontend is not part of this model, DESIGN.md 7)
               /\ good # {}
               /\ cmode' = cm
               /\ monNote' = [a \in Addr |-> IF a \in bad /\ monWait[a] THEN monNote[a] + 1 ELSE monNote[a]]
               /\ monWait' = [a \in Addr |-> IF a \in bad THEN FALSE ELSE monWait[a]]
               /\ readOnly' = VolStatus(cm).ro /\ rwCount' = VolStatus(cm).n
               /\ rlog' = [a \in Addr |-> IF a \in good THEN rsnapAt[a][n] ELSE rlog[a]]
               /\ rsnaps' = [a \in Addr |-> IF a \in good THEN SubSeq(rsnaps[a], 1, IdxOfName(rsnaps[a], n))
                                             ELSE rsnaps[a]]
               /\ acked' = IF good = {} THEN acked ELSE acked \cap rsnapAt[CHOOSE a \in good : TRUE][n]
               /\ res' = IF good # {} THEN "ok" ELSE "failed"
               /\ UNCHANGED <<checkpoint, reg, maxRev, signalled, pcAdd,
                              rstate, rmode, rrev, rreb, rcp, rsnapAt, nextW, calls>>

\* Controller.Resize (grow): fanned out to every backend that is not ERR -- the rebuilding
\* (WO) one included; a replica that fails its resize (F: injected; a replica whose REST state
\* is `rebuilding` does not offer the action at all) is marked ERR like after a failed
\* snapshot, and the call fails only if no RW replica is left.  Sizes themselves are checked
\* by the rule SizesAgree on the replicas' own metadata (all replicas are provisioned alike:
\* the harness grows the unattached ones as well).
ResizeVol(F) ==
    /\ Called("Resize", [F |-> F])
    /\ served' = "" /\ sig' = <<>>
    /\ LET T  == {a \in Members : cmode[a] # "ERR"}
           Fl == (F \cup {a \in T : rreb[a]}) \cap T
           cm == [a \in Addr |-> IF a \in Fl THEN "ERR" ELSE cmode[a]]
       IN /\ cmode' = cm
          /\ monNote' = [a \in Addr |-> IF a \in Fl /\ monWait[a] THEN monNote[a] + 1 ELSE monNote[a]]
          /\ monWait' = [a \in Addr |-> IF a \in Fl THEN FALSE ELSE monWait[a]]
          /\ res' = IF Fl = {} \/ RWs(cm) # {} THEN "ok" ELSE "failed"
          /\ readOnly' = VolStatus(cm).ro /\ rwCount' = VolStatus(cm).n
          /\ UNCHANGED <<checkpoint, reg, maxRev, signalled, pcAdd, env, acked, nextW, calls>>

-----------------------------------------------------------------------------
(* Environment *)

\* a detached replica's process restarts: closed again, ready to register / be added
ReplicaRestart(a) ==
    /\ Called("ReplicaRestart", [a |-> a])
    /\ served' = "" /\ sig' = <<>> /\ res' = "ok"
    /\ cmode[a] = "NONE" /\ pcAdd[a] = "idle"
    /\ rstate' = [rstate EXCEPT ![a] = "closed"]
    /\ rmode' = [rmode EXCEPT ![a] = "INIT"]
    /\ UNCHANGED <<ctl, rrev, rreb, rsnaps, rcp, rlog, rsnapAt, acked, nextW, calls>>

\* history before this controller started: a closed, unregistered replica comes
\* with some revision count (only before anything was acknowledged)
PresetRev(a, r) ==
    /\ Called("PresetRev", [a |-> a, rev |-> r])
    /\ served' = "" /\ sig' = <<>> /\ res' = "ok"
    /\ Members = {} /\ acked = {} /\ rstate[a] = "closed" /\ ~reg[a].on
    /\ rrev' = [rrev EXCEPT ![a] = r]
    /\ UNCHANGED <<ctl, rstate, rmode, rreb, rsnaps, rcp, rlog, rsnapAt, acked, nextW, calls>>

-----------------------------------------------------------------------------
(* Invariants *)

TypeOK ==
    /\ cmode \in [Addr -> {"NONE", "WO", "RW", "ERR"}]
    /\ readOnly \in BOOLEAN /\ signalled \in BOOLEAN

\* C03
RoFresh == readOnly <=> Cardinality(RWs(cmode)) < Quorum
CountMatches == rwCount = Cardinality(RWs(cmode))
\* C18
AtMostRF == Cardinality(Members) <= RF
OneWO == Cardinality(WOs(cmode)) <= 1
\* C02: every replica in service holds every acknowledged write
InServiceHoldAcked == \A a \in Addr : cmode[a] = "RW" => acked \subseteq rlog[a]
\* C04 is an action property (a successful read is served by an RW replica holding all acked writes)
ReadFresh == [][ (op'.name = "Read" /\ res' = "ok") =>
                    /\ cmode[served'] = "RW"
                    /\ acked \subseteq rlog[served'] ]_vars
\* C03: a mutating call that reaches any replica found a quorum of RW replicas
WriteGate == [][ (op'.name \in {"Write", "Sync", "Unmap"} /\ calls' # calls) =>
                    (~readOnly /\ Cardinality(RWs(cmode)) >= Quorum) ]_vars
\* C02: acknowledged => strictly more than half of the attached replicas applied it
AckMajority == [][ (op'.name = "Write" /\ res' = "ok") =>
                    LET Ws == {a \in Addr : cmode[a] \in {"RW", "WO"}}
                        ap == {a \in Ws : op'.args.w \in rlog'[a]}
                    IN Cardinality(ap) * 2 > Cardinality(Ws) ]_vars
\* C02 / C05: a replica that failed an I/O call is detached in the same step
FailedDetached == [][ (op'.name \in {"Write", "Sync", "Unmap", "Read"} /\ res' # "refused") =>
                    \A a \in Addr : (a \in op'.args.A /\ calls'[a] # calls[a] /\ a # served')
                                        => cmode'[a] = "NONE" ]_vars
\* C18: a removed replica receives no further data-path calls
RemovedSilent == [][ \A a \in Addr : cmode[a] = "NONE" => calls'[a] = calls[a] ]_vars
\* C09
SignalAfterMajority == sig # <<>> => sig[1].nreg >= Quorum
SignalsMax == sig # <<>> => sig[1].torev = sig[1].best
\* ... and therefore, whenever a candidate holds every acknowledged write, so does the elected one
ElectedFreshest == (sig # <<>> /\ sig[1].holders # {}) => sig[1].to \in sig[1].holders
OnlySignalledStarts == [][ (op'.name = "Start" /\ res' = "ok" /\ Members = {} /\ Members' # {}) =>
                    (signalled /\ op'.args.a = maxRev) ]_vars
\* C13
\* (a replica marked ERR is on its way out: the monitor removes it and that
\* removal withdraws the checkpoint -- the invariant speaks about quiescent points)
CheckpointAgreed ==
    (checkpoint # "" /\ \A a \in Addr : cmode[a] # "ERR") =>
                       /\ Cardinality(RWs(cmode)) = RF
                       /\ \A a \in Members : /\ rcp[a] = checkpoint
                                             /\ \E i \in 1..Len(rsnaps[a]) : rsnaps[a][i] = checkpoint
CheckpointIsLatestWhenSet ==
    [][ (checkpoint' # "" /\ checkpoint' # checkpoint) =>
            \A a \in Addr : cmode'[a] # "NONE" => Last(rsnaps'[a]) = checkpoint' ]_vars
SnapSamePoint == \A a, b \in Members : \A n \in DOMAIN rsnapAt[a] \cap DOMAIN rsnapAt[b] :
                    rsnapAt[a][n] = rsnapAt[b][n]
SnapNeedsAllRW == [][ (op'.name = "Snapshot" /\ res' # "refused") =>
                    Cardinality(RWs(cmode)) = RF ]_vars
=============================================================================
