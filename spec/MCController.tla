--------------------------- MODULE MCController ---------------------------
EXTENDS Controller

CONSTANTS MaxSnap, InitRevs, Ops

SnapNames == {"u1", "u2"}
AutoNames == {"x1", "x2", "x3"}

MCInit ==
    /\ Init
    /\ TRUE

\* initial revision counters / rebuilding flags vary (history before the controller started)
MCInit2 ==
    /\ cmode = [a \in Addr |-> "NONE"]
    /\ readOnly = TRUE /\ rwCount = 0 /\ checkpoint = ""
    /\ reg = [a \in Addr |-> NoReg] /\ maxRev = "" /\ signalled = FALSE
    /\ pcAdd = [a \in Addr |-> "idle"]
    /\ monWait = [a \in Addr |-> FALSE] /\ monNote = [a \in Addr |-> 0]
    /\ rstate = [a \in Addr |-> "closed"] /\ rmode = [a \in Addr |-> "INIT"]
    /\ rrev \in [Addr -> InitRevs]
    /\ rreb \in (IF "rebuilding" \in Ops THEN [Addr -> BOOLEAN] ELSE {[a \in Addr |-> FALSE]})
    /\ rsnaps = [a \in Addr |-> <<>>] /\ rcp = [a \in Addr |-> ""]
    /\ rlog = [a \in Addr |-> {}] /\ rsnapAt = [a \in Addr |-> << >>]
    /\ acked = {} /\ nextW = 1 /\ calls = [a \in Addr |-> 0]
    /\ res = "ok" /\ op = [name |-> "Init"] /\ sig = <<>> /\ served = ""

SnapCount == Cardinality(UNION {{rsnaps[a][i] : i \in 1..Len(rsnaps[a])} : a \in Addr})
FreshAuto == CHOOSE n \in AutoNames : \A a \in Addr : \A i \in 1..Len(rsnaps[a]) : rsnaps[a][i] # n

Next ==
    \/ \E a \in Addr : \E sf, af \in BOOLEAN : \E pick \in Addr :
          /\ cmode[a] = "NONE" /\ rstate[a] = "closed"
          /\ (sf => "sigfail" \in Ops) /\ (af => "sigfail" \in Ops)
          /\ pick \in ElectionPool(a, rrev[a], IF rreb[a] THEN "rebuilding" ELSE "closed", af)
          /\ Register(a, rrev[a], IF rreb[a] THEN "rebuilding" ELSE "closed", sf, af, pick)
    \* a replica calls Start only when it received the start signal; other callers are adversarial
    \/ \E a \in Addr : \E cf \in BOOLEAN :
          /\ (cf => "createfail" \in Ops)
          /\ (a = maxRev => signalled)
          /\ \E cs \in (IF "clonefail" \in Ops THEN {"", "error"} ELSE {""}) : StartC(a, cf, cs)
    \/ \E a \in Addr : \E tk \in BOOLEAN :
          /\ (tk <=> (WOs(cmode) # {} /\ \A w \in WOs(cmode) : rrev[a] > rrev[w]))
          /\ AddCheck(a, tk)
    \/ \E a \in Addr : \E cf \in BOOLEAN : \E tk \in BOOLEAN :
       \E S \in (SUBSET Addr) \cup (IF "snapfail" \in Ops THEN {{ModeFail}} ELSE {}) :
          /\ (cf => "createfail" \in Ops)
          /\ (S # {} => ("snapfail" \in Ops /\ Cardinality(S) = 1))
          /\ (tk <=> (WOs(cmode) # {} /\ \A w \in WOs(cmode) : rrev[a] > rrev[w]))
          /\ SnapCount < MaxSnap
          /\ AddCommit(a, cf, tk, FreshAuto, S)
    \/ \E a, src \in Addr : cmode[a] = "WO" /\ cmode[src] = "RW" /\ RebuildCopy(a, src)
    \/ \E a \in Addr : \E F \in SUBSET Addr :
          /\ (F # {} => ("cpfail" \in Ops /\ Cardinality(F) = 1))
          /\ VerifyRebuild(a, F)
    \/ \E a \in Addr : RemoveReplica(a)
    \/ ("seterr" \in Ops /\ \E a \in Addr : SetModeErr(a))
    \/ \E a \in Addr : MonitorRun(a)
    \/ \E A \in SUBSET Members : nextW <= MaxW /\ \E X \in {{}, A \cap Writers} : Mutate("Write", A, nextW, X)
    \/ ("sync" \in Ops /\ \E A \in SUBSET Members : \E k \in {"Sync", "Unmap"} : Mutate(k, A, 0, {}))
    \/ ("read" \in Ops /\ \E A \in SUBSET Members : \E T \in SUBSET (A \cap Readers) :
            \E s \in (Writers \ A) \cup {""} : \E X \in {{}, T} : Read(A, T, s, X))
    \/ ("snapshot" \in Ops /\ \E n \in SnapNames : \E S \in SUBSET Addr :
          /\ (S # {} => ("snapfail" \in Ops /\ Cardinality(S) = 1))
          /\ SnapCount < MaxSnap
          /\ Snapshot(n, S))
    \* (environment: a volume is reverted to a snapshot the checkpoint does not lie above)
    \/ ("revert" \in Ops /\ \E n \in SnapNames : \E F \in SUBSET Addr :
          /\ (F # {} => ("snapfail" \in Ops /\ Cardinality(F) = 1))
          /\ checkpoint = ""
          /\ RevertVol(n, F))
    \/ \E a \in Addr : rstate[a] = "open" /\ ReplicaRestart(a)
    \/ ("oob" \in Ops /\ \E k \in {"Write", "Read"} : OobIO(k))
    \/ ("oob" \in Ops /\ RegisterQuorum)
    \/ ("resize" \in Ops /\ \E F \in SUBSET Members : Cardinality(F) <= 1 /\ ResizeVol(F))

Spec == MCInit2 /\ [][Next]_vars

\* random walks that feed the L1 driver (TLC -simulate): calls the system refuses outright are
\* dropped except for I/O and snapshots (a refused write is what C03 is about), otherwise a walk
\* spends itself on requests nothing reacts to

View == <<cmode, readOnly, rwCount, checkpoint, reg, maxRev, signalled, pcAdd, monWait, monNote,
          rstate, rmode, rrev, rreb, rsnaps, rcp, rlog, rsnapAt, acked, nextW, sig>>
Bound == \A a \in Addr : monNote[a] <= 1 /\ rrev[a] <= 4

\* a step of a walk changes the state (requests nothing reacts to are left to the seeded generator)
SimStep == View' # View
SimSpec == MCInit2 /\ [][Next /\ SimStep]_vars
=============================================================================
