--------------------------- MODULE ControllerTrace ---------------------------
(***************************************************************************)
(* Trace validation for the controller family (C02 C03 C04 C05 C09 C13     *)
(* C18).  Records come from harness layer L1 (a real Controller, real      *)
(* remote backends and rpc, in-process replica nodes with fault            *)
(* injection).  All executions of one TLC run have the same replication    *)
(* factor (the orchestrator groups them).  Same two-phase scheme as        *)
(* ReplicaTrace: apply the Controller action named by the record with the  *)
(* logged arguments, then compare result, membership, status, checkpoint,  *)
(* signals, per-replica state and data with the specification, rule by     *)
(* rule, and evaluate the properties on the step.                          *)
(***************************************************************************)
EXTENDS Controller, Json

CONSTANTS TraceFile, ResultFile

Trace == ndJsonDeserialize(TraceFile)

VARIABLES l, phase, skipping, failed, ntraces, prev

tvars == <<l, phase, skipping, failed, ntraces, prev>>
allvars == <<vars, tvars>>

E == Trace[l]
SeqSet(s) == {s[i] : i \in 1..Len(s)}
Pre == [cmode |-> cmode, readOnly |-> readOnly, acked |-> acked, calls |-> calls, rlog |-> rlog,
        members |-> Members]

Reset ==
    /\ cmode' = [a \in Addr |-> "NONE"]
    /\ readOnly' = TRUE /\ rwCount' = 0 /\ checkpoint' = ""
    /\ reg' = [a \in Addr |-> NoReg] /\ maxRev' = "" /\ signalled' = FALSE
    /\ pcAdd' = [a \in Addr |-> "idle"]
    /\ monWait' = [a \in Addr |-> FALSE] /\ monNote' = [a \in Addr |-> 0]
    /\ rstate' = [a \in Addr |-> "closed"] /\ rmode' = [a \in Addr |-> "INIT"]
    /\ rrev' = [a \in Addr |-> 1] /\ rreb' = [a \in Addr |-> FALSE]
    /\ rsnaps' = [a \in Addr |-> <<>>] /\ rcp' = [a \in Addr |-> ""]
    /\ rlog' = [a \in Addr |-> {}] /\ rsnapAt' = [a \in Addr |-> << >>]
    /\ acked' = {} /\ nextW' = 1 /\ calls' = [a \in Addr |-> 0]
    /\ res' = "ok" /\ op' = [name |-> "Init"] /\ sig' = <<>> /\ served' = ""

TInit ==
    /\ Init
    /\ l = 1 /\ phase = "cmp" /\ skipping = FALSE /\ failed = <<>> /\ ntraces = 1
    /\ prev = Pre

\* takeover decision as the property states it: the newcomer's revision count is higher
TK(a) == WOs(cmode) # {} /\ \A w \in WOs(cmode) : rrev[a] > rrev[w]

StartSignals(e) == SelectSeq(e.signals, LAMBDA s : s.action = "start")

Pick(e) == IF Len(StartSignals(e)) > 0 THEN StartSignals(e)[Len(StartSignals(e))].to
           ELSE IF e.ctl.maxRev # "" THEN e.ctl.maxRev ELSE e.a.a

\* A logged choice the specification cannot even consider (a replica that is not
\* registered any more) must not disable the step: the registrant stands in and the
\* Signals rule reports the difference.
LegalPick(e) == LET p == Pick(e) IN
    IF p \in Addr /\ (p = e.a.a \/ (reg[p].on /\ ~(signalled /\ p = maxRev))) THEN p ELSE e.a.a

SpecStep(e) ==
    CASE e.ev = "Register"  -> Register(e.a.a, e.a.rev, e.a.st, e.a.sf, e.a.af, LegalPick(e))
      [] e.ev = "RegisterQuorum" -> RegisterQuorum
      [] e.ev = "Start"     -> StartC(e.a.a, e.a.cf, IF "cs" \in DOMAIN e.a THEN e.a.cs ELSE "")
      [] e.ev = "AddCheck"  -> AddCheck(e.a.a, TK(e.a.a))
      [] e.ev = "Add"       -> AddCheck(e.a.a, TK(e.a.a))
      [] e.ev = "AddCommit" -> AddCommit(e.a.a, e.a.cf, TK(e.a.a), e.a.name, SeqSet(e.a.S))
      [] e.ev = "Noop"      -> /\ Called("Noop", << >>) /\ res' = "ok" /\ sig' = <<>> /\ served' = ""
                               /\ UNCHANGED <<ctl, env, acked, nextW, calls>>
      [] e.ev = "Revert"    -> RevertVol(e.a.name, SeqSet(e.a.F))
      [] e.ev = "RebuildCopy" -> RebuildCopy(e.a.a, e.a.src)
      [] e.ev = "VerifyRebuild" -> VerifyRebuild(e.a.a, SeqSet(e.a.F))
      [] e.ev = "RemoveReplica" -> RemoveReplica(e.a.a)
      [] e.ev = "SetMode"   -> IF e.a.mode = "ERR" THEN SetModeErr(e.a.a)
                               ELSE IF e.a.mode = "RW" THEN FALSE      \* (forcing RW: outside the model)
                               ELSE SetModeInvalid(e.a.a, e.a.mode)
      [] e.ev = "MonitorRun" ->
            IF e.res = "none" /\ monNote[e.a.a] = 0
            THEN /\ Called("MonitorRun", [a |-> e.a.a]) /\ res' = "ok" /\ sig' = <<>> /\ served' = ""
                 /\ UNCHANGED <<ctl, env, acked, nextW, calls>>
            ELSE MonitorRun(e.a.a)
      [] e.ev \in {"Write", "Read"} /\ "oob" \in DOMAIN e.a -> OobIO(e.ev)
      [] e.ev \in {"Write", "Sync", "Unmap"} ->
            Mutate(e.ev, SeqSet(e.a.A), e.a.w,
                   IF e.a.mode \in {"stall", "drop"} THEN SeqSet(e.a.A) \cap Writers ELSE {})
      [] e.ev = "Read"      ->
            \* the logged choices (who was tried, who served) are taken where the
            \* specification allows them; where it does not, a legal choice stands in and
            \* the rules Result / ServedBy / Touched report the difference
            LET A   == SeqSet(e.a.A)
                all == Readers \subseteq A
                T   == IF all THEN Readers ELSE SeqSet(e.T) \cap A \cap Readers
                s0  == IF e.res = "ok" /\ e.served \in Addr THEN e.served ELSE ""
                okS == Readers \ A
                s   == IF all \/ Readers = {} THEN "" ELSE IF s0 \in okS THEN s0 ELSE CHOOSE x \in okS : TRUE
            IN Read(A, T, s, IF e.a.mode \in {"stall", "drop"} THEN T ELSE {})
      [] e.ev = "Snapshot"  -> Snapshot(e.a.name, SeqSet(e.a.S))
      [] e.ev = "Resize"    -> ResizeVol(SeqSet(e.a.F))
      [] e.ev = "PresetRev" -> PresetRev(e.a.a, e.a.rev)
      [] e.ev = "ReplicaRestart" ->
            IF cmode[e.a.a] = "NONE" THEN ReplicaRestart(e.a.a)
            ELSE FALSE
      [] OTHER -> FALSE

Fail(rules) ==
    failed' = Append(failed,
        [t |-> E.t, seq |-> E.seq, ev |-> E.ev, a |-> E.a, rules |-> rules,
         logged |-> [res |-> E.res, err |-> E.err, replicas |-> E.ctl.replicas, readOnly |-> E.ctl.readOnly,
                     checkpoint |-> E.ctl.checkpoint, signals |-> E.signals],
         spec |-> [res |-> res, cmode |-> cmode, readOnly |-> readOnly, rwCount |-> rwCount,
                   checkpoint |-> checkpoint, maxRev |-> maxRev, signalled |-> signalled, sig |-> sig,
                   acked |-> acked, pre |-> prev.cmode, prero |-> prev.readOnly, served |-> served,
                   reg |-> [a \in Addr |-> reg[a].rev], regst |-> [a \in Addr |-> reg[a].st]]])

OkClass(r) == r = "ok"
IsPartial(e) == "partial" \in DOMAIN e /\ e.partial
FailP(rules) ==
    failed' = Append(failed,
        [t |-> E.t, seq |-> E.seq, ev |-> E.ev, a |-> E.a, rules |-> rules,
         logged |-> [res |-> E.res, err |-> E.err, replicas |-> << >>, readOnly |-> readOnly,
                     checkpoint |-> "", signals |-> <<>>, touched |-> E.touched],
         spec |-> [res |-> res', cmode |-> cmode', readOnly |-> readOnly', rwCount |-> rwCount',
                   checkpoint |-> checkpoint', maxRev |-> maxRev', signalled |-> signalled', sig |-> sig',
                   acked |-> acked', pre |-> cmode, prero |-> readOnly, served |-> served',
                   reg |-> [a \in Addr |-> reg'[a].rev], regst |-> [a \in Addr |-> reg'[a].st]]])

FailH ==
    failed' = Append(failed,
        [t |-> E.t, seq |-> E.seq, ev |-> E.ev, a |-> E.a, rules |-> {"Hang"},
         logged |-> [res |-> E.res, err |-> E.err, replicas |-> << >>, readOnly |-> readOnly,
                     checkpoint |-> "", signals |-> <<>>, touched |-> <<>>],
         spec |-> [res |-> res, cmode |-> cmode, readOnly |-> readOnly, rwCount |-> rwCount,
                   checkpoint |-> checkpoint, maxRev |-> maxRev, signalled |-> signalled, sig |-> sig,
                   acked |-> acked, pre |-> cmode, prero |-> readOnly, served |-> served,
                   reg |-> [a \in Addr |-> reg[a].rev], regst |-> [a \in Addr |-> reg[a].st]]])

Apply ==
    /\ phase = "apply" /\ l <= Len(Trace)
    /\ IF E.ev = "Init" THEN
            /\ Reset /\ prev' = Pre
            /\ phase' = "cmp" /\ skipping' = FALSE /\ ntraces' = ntraces + 1
            /\ UNCHANGED <<l, failed>>
       ELSE IF skipping THEN
            /\ l' = l + 1
            /\ UNCHANGED <<vars, phase, skipping, failed, ntraces, prev>>
       ELSE IF E.ev = "Hang" THEN       \* an operation that never returned (record without state)
            /\ FailH /\ skipping' = TRUE /\ l' = l + 1
            /\ UNCHANGED <<vars, phase, ntraces, prev>>
       ELSE IF E.ev = "Panic" THEN
            /\ Fail({E.ev}) /\ skipping' = TRUE /\ l' = l + 1
            /\ UNCHANGED <<vars, phase, ntraces, prev>>
       ELSE IF IsPartial(E) /\ ENABLED SpecStep(E) THEN
            \* one of several concurrent calls (harness op Race), placed by the driver in an
            \* order the observations allow: applied; result and replicas reached are judged
            \* here, the closing record of the group carries the state
            /\ SpecStep(E)
            /\ prev' = Pre
            /\ l' = l + 1
            /\ LET td == SeqSet(E.touched)
                   rs == (IF OkClass(E.res) # OkClass(res') THEN {"Result"} ELSE {})
                         \cup (IF E.ev = "Write" /\ td # {a \in Addr : calls'[a] # calls[a]} THEN {"Touched"} ELSE {})
                         \cup (IF E.ev = "Write" /\ td # {} /\ (readOnly \/ Cardinality(RWs(cmode)) < Quorum)
                               THEN {"WriteGate"} ELSE {})
                         \cup (IF \E a \in td : cmode[a] = "NONE" THEN {"RemovedSilent"} ELSE {})
               IN IF rs = {} THEN UNCHANGED <<failed, skipping>>
                  ELSE FailP(rs) /\ skipping' = TRUE
            /\ UNCHANGED <<phase, ntraces>>
       ELSE IF ENABLED SpecStep(E) THEN
            /\ SpecStep(E)
            /\ prev' = Pre
            /\ phase' = IF E.ev = "Add" THEN "add2" ELSE "cmp"
            /\ UNCHANGED <<l, skipping, failed, ntraces>>
       ELSE /\ Fail({"SpecNotEnabled"})
            /\ skipping' = TRUE /\ l' = l + 1
            /\ UNCHANGED <<vars, phase, ntraces, prev>>

\* second half of an add whose factory.Create was reached
Add2 ==
    /\ phase = "add2"
    /\ IF res = "ok" /\ pcAdd[E.a.a] = "checked"
       THEN /\ AddCommit(E.a.a, E.a.cf, TK(E.a.a), E.a.name, SeqSet(E.a.S))
            /\ phase' = "cmp"
            /\ UNCHANGED <<l, skipping, failed, ntraces, prev>>
       ELSE \* the specification refused in the first section but the code went on to Create
            /\ phase' = "cmp"
            /\ UNCHANGED <<vars, l, skipping, failed, ntraces, prev>>

\* ---- compare -----------------------------------------------------------------
LoggedModes(m) == [a \in Addr |-> IF a \in DOMAIN m THEN m[a] ELSE "NONE"]
UserSnapNames(nd) == DOMAIN nd.snapat

Rules(e) ==
    LET c == e.ctl
        nd == e.nodes
        io == e.ev \in {"Write", "Sync", "Unmap", "Read"}
        touched == IF io THEN SeqSet(e.touched) ELSE {}
        specTouched == {a \in Addr : calls[a] # prev.calls[a]}
    IN
    (IF OkClass(e.res) # OkClass(res) /\ ~(e.ev = "MonitorRun") THEN {"Result"} ELSE {})
    \cup (IF LoggedModes(c.replicas) # cmode THEN {"Replicas"} ELSE {})
    \cup (IF c.dups THEN {"NoDup"} ELSE {})
    \cup (IF LoggedModes(c.backends) # LoggedModes(c.replicas) THEN {"ListsAgree"} ELSE {})
    \cup (IF SeqSet(c.readers) # {a \in DOMAIN c.replicas : c.replicas[a] = "RW"} THEN {"ReadersAreRW"} ELSE {})
    \cup (IF SeqSet(c.writers) # {a \in DOMAIN c.replicas : c.replicas[a] \in {"RW", "WO"}}
          THEN {"WritersAreNonErr"} ELSE {})
    \cup (IF c.readOnly # readOnly THEN {"ReadOnly"} ELSE {})
    \cup (IF c.rwCount # rwCount THEN {"RWCount"} ELSE {})
    \cup (IF c.checkpoint # checkpoint THEN {"Checkpoint"} ELSE {})
    \cup (IF \E a \in Addr : c.monNote[a] # monNote[a] THEN {"Monitors"} ELSE {})
    \* bootstrap observables
    \cup (IF e.ev = "Register" /\
             (\/ (sig = <<>>) # (Len(StartSignals(e)) = 0)
              \/ (sig # <<>> /\ Len(StartSignals(e)) > 0 /\ StartSignals(e)[Len(StartSignals(e))].to # sig[1].to))
          THEN {"Signals"} ELSE {})
    \cup (IF e.ev = "RegisterQuorum" /\ Len(StartSignals(e)) > 0 THEN {"Signals"} ELSE {})
    \cup (IF e.ev = "Register" /\ sig # <<>> /\ sig[1].nreg < Quorum THEN {"SignalAfterMajority"} ELSE {})
    \cup (IF e.ev = "Register" /\ sig # <<>> /\ sig[1].torev # sig[1].best THEN {"SignalsMax"} ELSE {})
    \* data path observables
    \cup (IF io /\ touched # specTouched THEN {"Touched"} ELSE {})
    \cup (IF e.ev = "Read" /\ e.res = "ok" /\ res = "ok" /\
             (\/ \E w \in acked : e.out[w] # w
              \/ \E i \in 1..Len(e.out) : e.out[i] \notin {0, i})
          THEN {"ReadData"} ELSE {})
    \* the replicas themselves
    \cup (IF \E a \in Addr : nd[a].state # rstate[a] THEN {"Node.state"} ELSE {})
    \cup (IF \E a \in Addr : rstate[a] = "open" /\ cmode[a] # "NONE" /\ nd[a].mode # rmode[a]
          THEN {"Node.mode"} ELSE {})
    \cup (IF \E a \in Addr : nd[a].rev # rrev[a] THEN {"Node.rev"} ELSE {})
    \cup (IF \E a \in Addr : nd[a].snaps # rsnaps[a] THEN {"Node.snaps"} ELSE {})
    \cup (IF \E a \in Addr : nd[a].cp # rcp[a] THEN {"Node.cp"} ELSE {})
    \cup (IF \E a \in Addr : SeqSet(nd[a].log) # rlog[a] THEN {"Node.log"} ELSE {})
    \* volume size: every replica in service has the same size; after a successful grow, the new one
    \* (replicas not in service are provisioned by the harness and not judged)
    \cup (IF \E a, b \in Addr : cmode[a] \in {"RW", "WO"} /\ cmode[b] \in {"RW", "WO"} /\ nd[a].size # nd[b].size
          THEN {"SizesAgree"} ELSE {})
    \cup (IF e.ev = "Resize" /\ e.res = "ok" /\ res = "ok" /\
             \E a \in Addr : cmode[a] \in {"RW", "WO"} /\ nd[a].size # e.a.nb
          THEN {"SizesAgree"} ELSE {})
    \* the properties, on this step
    \cup (IF readOnly # (Cardinality(RWs(cmode)) < Quorum) THEN {"RoFresh"} ELSE {})
    \cup (IF rwCount # Cardinality(RWs(cmode)) THEN {"CountMatches"} ELSE {})
    \cup (IF Cardinality(Members) > RF THEN {"AtMostRF"} ELSE {})
    \cup (IF Cardinality(WOs(cmode)) > 1 THEN {"OneWO"} ELSE {})
    \cup (IF \E a \in Addr : cmode[a] = "RW" /\ ~(acked \subseteq SeqSet(nd[a].log))
          THEN {"InServiceHoldAcked"} ELSE {})
    \cup (IF e.ev = "Read" /\ res = "ok" /\ served # "" /\
             (prev.cmode[served] # "RW" \/ ~(prev.acked \subseteq prev.rlog[served]))
          THEN {"ReadFresh"} ELSE {})
    \cup (IF e.ev = "Read" /\ e.res = "ok" /\ res = "ok" /\ e.served \in Addr /\ e.served # served
          THEN {"ServedBy"} ELSE {})
    \* a read is either served completely or reported as failed (never "no error, no data")
    \cup (IF e.ev = "Read" /\ "shortnil" \in DOMAIN e /\ e.shortnil THEN {"ShortSuccess"} ELSE {})
    \cup (IF e.ev \in {"Write", "Sync", "Unmap"} /\ touched # {} /\
             (prev.readOnly \/ Cardinality(RWs(prev.cmode)) < Quorum)
          THEN {"WriteGate"} ELSE {})
    \cup (IF io /\ \E a \in touched \cap SeqSet(e.a.A) : a \in DOMAIN c.replicas
          THEN {"FailedDetached"} ELSE {})
    \cup (IF io /\ \E a \in touched : prev.cmode[a] = "NONE" THEN {"RemovedSilent"} ELSE {})
    \cup (IF checkpoint # "" /\ (\A a \in Addr : cmode[a] # "ERR") /\
             (\/ Cardinality(RWs(cmode)) # RF
              \/ \E a \in Members : nd[a].cp # checkpoint)
          THEN {"CheckpointAgreed"} ELSE {})
    \cup (IF \E a, b \in Members : \E n \in UserSnapNames(nd[a]) \cap UserSnapNames(nd[b]) :
                SeqSet(nd[a].snapat[n]) # SeqSet(nd[b].snapat[n])
          THEN {"SnapSamePoint"} ELSE {})
    \cup (IF e.ev = "Snapshot" /\ e.res = "ok" /\ Cardinality(RWs(prev.cmode)) # RF
          THEN {"SnapNeedsAllRW"} ELSE {})

Compare ==
    /\ phase = "cmp" /\ l <= Len(Trace)
    /\ LET rs == Rules(E)
       IN IF rs = {} THEN UNCHANGED <<failed, skipping>>
          ELSE Fail(rs) /\ skipping' = TRUE
    /\ l' = l + 1 /\ phase' = "apply"
    /\ UNCHANGED <<vars, ntraces, prev>>

TNext == Apply \/ Add2 \/ Compare
TSpec == TInit /\ [][TNext]_allvars

Done == l = Len(Trace) + 1
Finish == Done => JsonSerialize(ResultFile,
                     [consumed |-> l - 1, records |-> Len(Trace), traces |-> ntraces,
                      failed |-> failed])
SpecSane == TRUE
=============================================================================
