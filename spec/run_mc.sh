#!/bin/sh
# usage: run_mc.sh <Module> <cfg> [workers] -- runs TLC in a scratch copy
set -e
M=$1; C=$2; W=${3:-8}
D=$(mktemp -d /tmp/mc.XXXXXX)
cp /verif/spec/*.tla "$D"/ ; cp "$C" "$D"/run.cfg
cd "$D"
timeout ${TLC_TIMEOUT:-1800} tlc -workers $W -metadir "$D/m" -config run.cfg $TLC_EXTRA "$M.tla" 2>&1 | grep -v "^Linting"
rm -rf "$D"
