------------------------------ MODULE RpcTrace ------------------------------
(***************************************************************************)
(* Trace validation for C15.  Records come from harness layer L4: the real *)
(* rpc.Client against a scripted peer with an independent codec.  Harness- *)
(* side events (Call, PeerRecv, PeerSend, PeerDies, Return, End) are       *)
(* totally ordered by one mutex.  Each record is one Rpc.tla action or a   *)
(* deterministic composite of them: PeerRecv = Deliver (loop + writer +    *)
(* peer decode), Return = the Complete steps up to that call's reply (the  *)
(* wire is FIFO) or Timeout.  Rules compare the logged frame contents,     *)
(* result class, payload stamp and timing with the specification.          *)
(***************************************************************************)
EXTENDS Rpc, Json

CONSTANTS TraceFile, ResultFile, DeadlineMs

Trace == ndJsonDeserialize(TraceFile)

VARIABLES l, skipping, failed, ntraces, args, sentAt

tvars == <<l, skipping, failed, ntraces, args, sentAt>>
allvars == <<vars, tvars>>
E == Trace[l]

NoArgs == [op |-> "", off |-> 0, size |-> 0, stamp |-> 0]

TypeOf(o) == CASE o = "read" -> 0 [] o = "write" -> 1 [] o = "ping" -> 6 [] o = "sync" -> 8
               [] o = "unmap" -> 9 [] OTHER -> 99

\* does frame e (as decoded by the harness) carry exactly call c's arguments?
FrameIs(e, c) ==
    LET a == args[c] IN
    /\ e.type = TypeOf(a.op) /\ e.magic = 6915
    /\ CASE a.op = "read"  -> e.off = a.off /\ e.size = a.size /\ e.dlen = 0
         [] a.op = "write" -> e.off = a.off /\ e.size = a.size /\ e.dlen = a.size /\ e.stamp = a.stamp
         [] a.op = "unmap" -> e.off = a.off /\ e.size = a.size /\ e.dlen = 0
         [] OTHER          -> e.dlen = 0

\* ---- functional form of Complete, applied until call c is terminal or the wire is empty
S0 == [st |-> st, got |-> got, messages |-> messages, wire |-> wire, err |-> err, notified |-> notified]

Step(S) ==
    LET s == Head(S.wire)[1]
        kind == Head(S.wire)[2]
        W == Tail(S.wire)
    IN IF kind = "eof" THEN
            [S EXCEPT !.wire = W, !.err = TRUE,
                      !.notified = IF S.err THEN S.notified ELSE S.notified + 1,
                      !.st = [c \in Calls |-> IF S.st[c] = "sent" THEN "terr" ELSE S.st[c]],
                      !.messages = {}]
       ELSE IF s \in S.messages THEN
            LET c == CallOfSeq(s)
            IN [S EXCEPT !.wire = W,
                         !.st = [S.st EXCEPT ![c] = IF S.err THEN "terr" ELSE IF kind = "resp" THEN "ok" ELSE "rerr"],
                         !.got = [S.got EXCEPT ![c] = s],
                         !.messages = S.messages \ {s}]
       ELSE [S EXCEPT !.wire = W]

RECURSIVE Drain(_, _)
Drain(S, c) == IF S.wire = <<>> \/ S.st[c] \in {"ok", "rerr", "terr", "timeout"} THEN S
               ELSE Drain(Step(S), c)
RECURSIVE DrainAll(_)
DrainAll(S) == IF S.wire = <<>> THEN S ELSE DrainAll(Step(S))

Adopt(S) ==
    /\ st' = S.st /\ got' = S.got /\ messages' = S.messages /\ wire' = S.wire
    /\ err' = S.err /\ notified' = S.notified

Fail(rules) ==
    failed' = Append(failed, [t |-> E.t, seq |-> E.seq, ev |-> E.ev, rules |-> rules, rec |-> E,
                              spec |-> [st |-> st, seqOf |-> seqOf, err |-> err, dead |-> dead,
                                        nextSeq |-> nextSeq, wire |-> wire]])

Reset ==
    /\ st' = [c \in Calls |-> "new"] /\ seqOf' = [c \in Calls |-> 0] /\ got' = [c \in Calls |-> 0]
    /\ nextSeq' = 1 /\ messages' = {} /\ inbox' = {} /\ wire' = <<>>
    /\ err' = FALSE /\ dead' = FALSE /\ notified' = 0 /\ lastop' = "init"
    /\ args' = [c \in Calls |-> NoArgs] /\ sentAt' = << >>

TInit ==
    /\ Init /\ l = 1 /\ skipping = FALSE /\ failed = <<>> /\ ntraces = 0
    /\ args = [c \in Calls |-> NoArgs] /\ sentAt = << >>

Bad(rules) == /\ Fail(rules) /\ skipping' = TRUE
              /\ UNCHANGED <<vars, ntraces, args, sentAt>>
Good == UNCHANGED <<failed, skipping, ntraces>>

TNext ==
    /\ l <= Len(Trace) /\ l' = l + 1
    /\ IF E.ev = "Scenario" THEN UNCHANGED <<vars, skipping, failed, ntraces, args, sentAt>>
       ELSE IF E.ev = "Init" THEN
            /\ Reset /\ skipping' = FALSE /\ ntraces' = ntraces + 1 /\ UNCHANGED failed
       ELSE IF skipping THEN UNCHANGED <<vars, skipping, failed, ntraces, args, sentAt>>
       ELSE IF E.ev = "Hang" THEN Bad({"Hang"})
       ELSE IF E.ev = "Call" THEN
            IF E.id \notin Calls \/ st[E.id] # "new" THEN Bad({"HarnessCallId"})
            ELSE /\ Issue(E.id)
                 /\ args' = [args EXCEPT ![E.id] = [op |-> E.op, off |-> E.off, size |-> E.size, stamp |-> E.stamp]]
                 /\ Good /\ UNCHANGED sentAt
       ELSE IF E.ev = "PeerRecv" THEN
            \* the frame must be exactly one issued, not yet delivered call; sequence numbers count up
            LET M == {c \in Calls : st[c] = "queued" /\ FrameIs(E, c)}
            IN IF M = {} THEN Bad({"FrameFidelity"})
               ELSE IF E.fseq # nextSeq THEN Bad({"SeqOrder"})
               ELSE LET c == CHOOSE x \in M : TRUE
                    IN /\ Deliver(c) /\ Good /\ UNCHANGED <<args, sentAt>>
       ELSE IF E.ev = "PeerSend" THEN
            IF E.fseq \notin inbox THEN Bad({"HarnessPeerSend"})
            ELSE /\ PeerReply(E.fseq, IF E.kind = "error" THEN "err" ELSE "resp")
                 /\ sentAt' = [x \in DOMAIN sentAt \cup {E.fseq} |-> IF x = E.fseq THEN E.ts ELSE sentAt[x]]
                 /\ Good /\ UNCHANGED args
       ELSE IF E.ev = "PeerDies" THEN
            /\ PeerDies /\ Good /\ UNCHANGED <<args, sentAt>>
       ELSE IF E.ev = "Return" THEN
            LET c == E.id
                S == Drain(S0, c)
                sticky == E.class = "timeout" /\ E.ms < DeadlineMs - 100
                class == IF sticky THEN "terr" ELSE E.class
                late == E.ms > DeadlineMs + 2600
            IN IF late THEN Bad({"Prompt"})
               ELSE IF class \in {"ok", "rerr"} THEN
                    IF S.st[c] # class THEN Bad({IF S.st[c] \in {"ok", "rerr"} THEN "ResultClass" ELSE "ReplyWithoutCause"})
                    ELSE IF S.got[c] # seqOf[c] THEN Bad({"ReplyMatches"})
                    ELSE IF class = "ok" /\ args[c].op = "read" /\ (E.got # args[c].stamp \/ E.n # args[c].size)
                         THEN Bad({"Payload"})
                    ELSE IF class = "ok" /\ args[c].op = "write" /\ E.n # args[c].size THEN Bad({"Payload"})
                    ELSE /\ Adopt(S) /\ lastop' = "complete" /\ Good
                         /\ UNCHANGED <<seqOf, nextSeq, inbox, dead, args, sentAt>>
               ELSE IF class = "terr" THEN
                    \* a transport failure needs a cause: the stream died or the sticky error is set
                    IF S.st[c] = "terr" \/ S.err \/ dead
                    THEN /\ Adopt([S EXCEPT !.st = [S.st EXCEPT ![c] = "terr"], !.err = TRUE,
                                            !.notified = IF S.err THEN S.notified ELSE S.notified + 1,
                                            !.messages = S.messages \ {seqOf[c]}])
                         /\ lastop' = "complete" /\ Good
                         /\ UNCHANGED <<seqOf, nextSeq, inbox, dead, args, sentAt>>
                    ELSE Bad({IF S.st[c] \in {"ok", "rerr"} THEN "LostReply" ELSE "SpuriousTransportError"})
               ELSE \* a genuine deadline expiry
                    \* (a peer that closes its socket with unread frames in it resets the connection,
                    \* and a reset may discard a reply the client has not read yet: once the stream
                    \* is dead, a reply that was sent is not a reply that arrived)
                    IF S.st[c] \in {"ok", "rerr"} /\ ~dead /\ seqOf[c] \in DOMAIN sentAt /\ E.ts - sentAt[seqOf[c]] > 300
                    THEN Bad({"TimeoutDespiteReply"})
                    \* (after a transport error the client waits 2 s before it fails the calls in
                    \* flight; a caller whose deadline is shorter returns the timeout first)
                    ELSE IF st[c] \notin {"queued", "sent", "terr"} /\ S.st[c] \notin {"ok", "rerr"}
                         THEN Bad({"TimeoutWithoutPending"})
                    ELSE /\ st' = [d \in Calls |-> IF d = c THEN "timeout"
                                                   ELSE IF st[d] = "sent" THEN "terr" ELSE st[d]]
                         /\ err' = TRUE /\ notified' = IF err THEN notified ELSE notified + 1
                         /\ messages' = {} /\ lastop' = "timeout" /\ Good
                         /\ UNCHANGED <<seqOf, got, nextSeq, inbox, wire, dead, args, sentAt>>
       ELSE IF E.ev = "End" THEN
            LET S == DrainAll(S0)
                open == {c \in Calls : S.st[c] \in {"queued", "sent"}}
            IN IF open # {} THEN Bad({"EveryCallReturns"})
               ELSE IF S.err /\ E.notified = 0 THEN Bad({"FailureReported"})
               ELSE IF ~S.err /\ ~dead /\ E.notified > 0 THEN Bad({"SpuriousNotify"})
               ELSE UNCHANGED <<vars, failed, skipping, ntraces, args, sentAt>>
       ELSE Bad({"UnknownRecord"})

TSpec == TInit /\ [][TNext]_allvars

TDone == l = Len(Trace) + 1
Finish == TDone => JsonSerialize(ResultFile,
              [consumed |-> l - 1, records |-> Len(Trace), traces |-> ntraces, failed |-> failed])
=============================================================================
