------------------------------ MODULE RestTrace ------------------------------
(***************************************************************************)
(* Trace validation for C14: every fuzz request sent to the real REST      *)
(* routers (harness L5) with the observations taken after it: HTTP status, *)
(* child alive, mutex free (TryLock inside the child), liveness probe, and *)
(* for replica actions the state before/after.                             *)
(***************************************************************************)
EXTENDS RestApi, Json

CONSTANTS TraceFile, ResultFile
Trace == ndJsonDeserialize(TraceFile)

VARIABLES l, failed
tvars == <<l, failed>>
E == Trace[l]

TInit == Init /\ l = 1 /\ failed = <<>>

Ok2xx(s) == s >= 200 /\ s < 300

Rules(e) ==
    (IF ~e.alive THEN {"ProcessDied"} ELSE {})
    \cup (IF e.alive /\ ~e.lockfree THEN {"LockHeld"} ELSE {})
    \cup (IF e.alive /\ ~e.probe THEN {"ProbeFailed"} ELSE {})
    \cup (IF e.status = -1 /\ e.alive THEN {"NoResponse"} ELSE {})
    \* a body that is not JSON at all (or cut in the middle) must not be answered with success by a
    \* handler that needs its body
    \cup (IF e.needsbody /\ e.class \in {"notjson", "truncated"} /\ Ok2xx(e.status) THEN {"MalformedAccepted"} ELSE {})
    \cup (IF e.side = "replica" /\ e.action # "" /\ e.method = "POST" /\ e.idok /\
             e.action \notin Allowed(e.before) /\ (Ok2xx(e.status) \/ e.after # e.before)
          THEN {"Matrix"} ELSE {})

TNext ==
    /\ l <= Len(Trace) /\ l' = l + 1
    /\ UNCHANGED vars
    /\ LET rs == Rules(E)
       IN failed' = IF rs = {} THEN failed
                    ELSE Append(failed, [n |-> E.n, rules |-> rs, req |-> E])

TSpec == TInit /\ [][TNext]_<<vars, tvars>>
TDone == l = Len(Trace) + 1
Finish == TDone => JsonSerialize(ResultFile, [consumed |-> l - 1, records |-> Len(Trace), failed |-> failed])
=============================================================================
