#!/bin/sh
# usage: validate_trace.sh <TraceModule> <trace.ndjson> <result.json> [MaxNB] [SPB]
set -e
M=$1; T=$2; R=$3; NB=${4:-16}; SPBV=${5:-8}
D=$(mktemp -d /tmp/tv.XXXXXX)
cp /verif/spec/*.tla "$D"/
cat > "$D/run.cfg" <<EOC
SPECIFICATION TSpec
CONSTANTS
  MaxNB = $NB
  SPB = $SPBV
  Bug = {}
  TraceFile = "$T"
  ResultFile = "$R"
INVARIANTS Finish SpecSane
CHECK_DEADLOCK FALSE
EOC
cd "$D"
rm -f "$R"
timeout ${TLC_TIMEOUT:-1800} tlc -workers 1 -metadir "$D/m" -config run.cfg "$M.tla" > "$D/tlc.out" 2>&1 || true
grep -v "^Linting\|^Parsing\|^Semantic" "$D/tlc.out" | tail -${TLC_TAIL:-12}
rm -rf "$D"
