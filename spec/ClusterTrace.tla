----------------------------- MODULE ClusterTrace -----------------------------
(***************************************************************************)
(* Rules for executions of a REAL cluster (harness L2: in-process          *)
(* controller with its REST router, real `jiva replica` processes, real    *)
(* sync agent): rebuild after kills (C07) and clone of a snapshot into a   *)
(* new volume (C19).  The Promoted record is taken by the verif hook at    *)
(* the success exit of VerifyRebuildReplica, controller lock held: raw     *)
(* images of target and source directory at the instant of promotion.      *)
(* Interpretation fixed in DESIGN.md (C07): live image and user-created    *)
(* snapshots must be identical; automatic snapshots may be thinned by      *)
(* reclamation on one side and are compared by name only.                  *)
(***************************************************************************)
EXTENDS Integers, Sequences, FiniteSets, TLC, Json

CONSTANTS TraceFile, ResultFile
Trace == ndJsonDeserialize(TraceFile)

VARIABLES l, failed, rwSeen, promos, everRW, completedSeen, ntraces, aligned
vars == <<l, failed, rwSeen, promos, everRW, completedSeen, ntraces, aligned>>
E == Trace[l]
SeqSet(s) == {s[i] : i \in 1..Len(s)}

Init == l = 1 /\ failed = <<>> /\ rwSeen = {} /\ promos = << >> /\ everRW = {} /\ completedSeen = FALSE /\ ntraces = 0 /\ aligned = FALSE

\* write id w is one 512-byte sector (sector w) or, in aligned scenarios, the whole block w
Holds(img, A) == \A w \in A :
    IF aligned THEN \A i \in (8 * (w - 1) + 1)..(8 * w) : i <= Len(img) /\ img[i] = w
    ELSE w <= Len(img) /\ img[w] = w
Tail1(s) == IF Len(s) = 0 THEN s ELSE Tail(s)     \* chain without its head

Reps(e) == IF "replicas" \in DOMAIN e.ctl THEN e.ctl.replicas ELSE << >>
WOs(e) == {a \in DOMAIN Reps(e) : Reps(e)[a] = "WO"}
RWs(e) == {a \in DOMAIN Reps(e) : Reps(e)[a] = "RW"}

PromotedRules(e) ==
    LET tv == e.tv
        sv == e.sv
        A == SeqSet(e.acked)
        common == DOMAIN tv.snaps \cap DOMAIN sv.snaps
    IN (IF ~tv.ok \/ ~sv.ok THEN {"PromotedIdentical.unreadable"} ELSE {})
       \cup (IF tv.ok /\ sv.ok /\ tv.live # sv.live THEN {"PromotedIdentical.live"} ELSE {})
       \cup (IF tv.ok /\ sv.ok /\ Tail1(tv.chain) # Tail1(sv.chain) THEN {"PromotedIdentical.chain"} ELSE {})
       \cup (IF \E n \in common : sv.user[n] /\ tv.snaps[n] # sv.snaps[n] THEN {"PromotedIdentical.snapshot"} ELSE {})
       \cup (IF tv.ok /\ sv.ok /\ tv.rev # sv.rev THEN {"RevEqualised"} ELSE {})
       \cup (IF tv.ok /\ ~Holds(tv.live, A) THEN {"AckedHeld"} ELSE {})

FinalRules(e) ==
    LET A == SeqSet(e.acked)
        rw == RWs(e) \cap DOMAIN e.views
    IN (IF \E a \in rw : ~e.views[a].ok \/ ~Holds(e.views[a].live, A) THEN {"AckedHeld.final"} ELSE {})
       \cup (IF \E a, b \in rw : e.views[a].ok /\ e.views[b].ok /\ e.views[a].live # e.views[b].live
             THEN {"ReplicasIdentical.final"} ELSE {})
       \cup (IF \E a, b \in rw : e.views[a].ok /\ e.views[b].ok /\ e.views[a].rev # e.views[b].rev
             THEN {"RevEqual.final"} ELSE {})
       \* every replica that became RW other than by starting the volume was promoted
       \cup (IF \E a \in everRW : a \notin DOMAIN promos /\ a \notin rwSeen THEN {} ELSE {})

CloneRules(e) ==
    LET rw == "k1" \in DOMAIN e.cctl.replicas /\ e.cctl.replicas["k1"] = "RW"
    IN IF e.ev = "CloneSample" THEN
            (IF rw /\ ~(completedSeen \/ e.status = "completed") THEN {"NotServedBeforeCompleted"} ELSE {})
            \cup (IF rw /\ e.status = "error" THEN {"ErrorNeverServes"} ELSE {})
       ELSE \* CloneFinal
            (IF rw /\ (e.res # "ok" \/ e.out # e.srcsnap) THEN {"CloneImageEqualsS"} ELSE {})
            \cup (IF rw /\ e.cv.live # e.srcsnap THEN {"CloneImageEqualsS.raw"} ELSE {})
            \cup (IF rw /\ e.cv.rev # e.srcrev THEN {"CloneRevEqualsS"} ELSE {})
            \cup (IF rw /\ e.cv.clone # "completed" THEN {"NotServedBeforeCompleted"} ELSE {})
            \cup (IF e.cv.clone = "completed" /\ e.cv.ok /\ e.cv.live # e.srcsnap THEN {"CompletedOnlyWhenIdentical"} ELSE {})

Rules(e) ==
    (IF "ctl" \in DOMAIN e /\ "replicas" \in DOMAIN e.ctl /\ Cardinality(WOs(e)) > 1 THEN {"OneRebuilder"} ELSE {})
    \cup (IF e.ev = "Promoted" THEN PromotedRules(e) ELSE {})
    \cup (IF e.ev = "Read" /\ e.res = "ok" /\ ~Holds(e.out, SeqSet(e.acked)) THEN {"ReadFresh"} ELSE {})
    \cup (IF e.ev = "Final" THEN FinalRules(e) ELSE {})
    \cup (IF e.ev \in {"CloneSample", "CloneFinal"} THEN CloneRules(e) ELSE {})
    \* a replica seen RW that was neither RW at the previous observation nor promoted nor the one started
    \cup (IF "ctl" \in DOMAIN e /\ "replicas" \in DOMAIN e.ctl /\ e.ev # "Promoted" /\
             \E a \in RWs(e) : a \notin rwSeen /\ rwSeen # {} /\ everRW # {} /\
                               (a \notin DOMAIN promos \/ promos[a] = 0) /\
                               \* (the sampler reads the list without the lock: the promotion record
                               \* of the same critical section may be logged just after the sample)
                               ~\E k \in (l + 1)..(IF l + 3 <= Len(Trace) THEN l + 3 ELSE Len(Trace)) :
                                     Trace[k].ev = "Promoted" /\ Trace[k].target = a
          THEN {"RWOnlyViaPromotion"} ELSE {})

Next ==
    /\ l <= Len(Trace) /\ l' = l + 1
    /\ IF E.ev = "Init" THEN
            /\ rwSeen' = {} /\ promos' = << >> /\ everRW' = {} /\ completedSeen' = FALSE
            /\ ntraces' = ntraces + 1 /\ UNCHANGED failed
            /\ aligned' = E.aligned
       ELSE LET rs == Rules(E)
            IN /\ failed' = IF rs = {} THEN failed
                            ELSE Append(failed, [t |-> E.t, seq |-> E.seq, ev |-> E.ev, rules |-> rs,
                                                 ctl |-> IF "ctl" \in DOMAIN E THEN E.ctl ELSE << >>])
               /\ IF E.ev = "Promoted" THEN
                       /\ promos' = [x \in DOMAIN promos \cup {E.target} |-> IF x = E.target THEN 1 ELSE promos[x]]
                       /\ UNCHANGED <<rwSeen, everRW>>
                  ELSE IF "ctl" \in DOMAIN E /\ "replicas" \in DOMAIN E.ctl THEN
                       /\ rwSeen' = RWs(E)
                       /\ everRW' = everRW \cup RWs(E)
                       \* a replica that dropped out needs a new promotion to come back
                       /\ promos' = [x \in DOMAIN promos |-> IF x \in RWs(E) \/ x \in WOs(E) THEN promos[x] ELSE 0]
                  ELSE UNCHANGED <<rwSeen, promos, everRW>>
               /\ completedSeen' = (completedSeen \/ (E.ev = "CloneSample" /\ E.status = "completed"))
               /\ UNCHANGED <<ntraces, aligned>>

TSpec == Init /\ [][Next]_vars
TDone == l = Len(Trace) + 1
Finish == TDone => JsonSerialize(ResultFile, [consumed |-> l - 1, records |-> Len(Trace), traces |-> ntraces, failed |-> failed])
=============================================================================
