------------------------------- MODULE FSTrace -------------------------------
(***************************************************************************)
(* Interprets recorded system-call sequences of replica operations with    *)
(* the generic file-system actions of ReplicaFS and evaluates, after EVERY *)
(* prefix, the crash-consistency property (Recover = chain before or chain *)
(* after), at the end Durable (success => directory flushed) and, for runs *)
(* with one failed call, NoSilentDamage.  One "init" record starts each    *)
(* recorded run (directory listing with parsed metadata, before / after    *)
(* chains).  Verdicts about the code come from killing the real process at *)
(* the same boundaries and reopening (harness L3); this module supplies    *)
(* the prediction for every boundary and is cross-checked against them.    *)
(***************************************************************************)
EXTENDS ReplicaFS, Json

CONSTANTS TraceFile, ResultFile
Trace == ndJsonDeserialize(TraceFile)

VARIABLES l, before, after, failed, recs, nruns

vars == <<fsvars, l, before, after, failed, recs, nruns>>
E == Trace[l]


ToContent(f) == IF f.k = "img" THEN Img
                ELSE IF f.k = "meta" THEN Meta(f.head, f.parent)
                ELSE Bad

LoadInit(e) ==
    LET ns == DOMAIN e.files
    IN /\ names' = [n \in ns |-> e.files[n].ino]
       /\ inodes' = [i \in {e.files[n].ino : n \in ns} |->
                        ToContent(e.files[CHOOSE n \in ns : e.files[n].ino = i])]
       /\ nextIno' = Cardinality(ns) + 1
       /\ dirtyDir' = FALSE
       /\ before' = e.before /\ after' = e.after

Effect(e) ==
    IF ~e.ok THEN FsNone          \* the call was made to fail: no effect
    ELSE CASE e.ev = "creat"   -> FsCreate(e.path, e.trunc, e.kind)
           [] e.ev = "wmeta"   -> FsWriteMeta(e.path, ToContent(e.meta))
           [] e.ev = "rename"  -> FsRename(e.path, e.path2)
           [] e.ev = "link"    -> FsLink(e.path, e.path2)
           [] e.ev = "unlink"  -> FsUnlink(e.path)
           [] e.ev = "syncdir" -> FsSyncDir
           [] OTHER            -> FsNone

Init ==
    /\ names = << >> /\ inodes = << >> /\ nextIno = 1 /\ dirtyDir = FALSE
    /\ l = 1 /\ before = <<>> /\ after = <<>> /\ failed = <<>> /\ recs = <<>> /\ nruns = 0

Fail(rule) == [run |-> E.run, k |-> E.k, ev |-> E.ev, rule |-> rule]

Step ==
    /\ l <= Len(Trace)
    /\ l' = l + 1
    /\ IF E.ev = "init" THEN
            /\ LoadInit(E) /\ nruns' = nruns + 1
            /\ UNCHANGED <<failed, recs>>
       ELSE IF E.ev = "result" THEN
            /\ FsNone /\ UNCHANGED <<before, after, nruns, recs>>
            /\ failed' = failed
                 \o (IF E.res = "ok" /\ dirtyDir THEN <<Fail("Durable")>> ELSE <<>>)
                 \o (IF E.injected /\ E.res = "ok" /\ Recover # after THEN <<Fail("NoSilentDamage.ok")>> ELSE <<>>)
                 \o (IF E.injected /\ E.res = "err" /\ Recover # before THEN <<Fail("NoSilentDamage.err")>> ELSE <<>>)
       ELSE /\ Effect(E)
            /\ UNCHANGED <<before, after, nruns>>
            \* the state after this call = the crash state at the boundary before the next one
            /\ recs' = Append(recs, [run |-> E.run, k |-> E.k, rec |-> Recover'])
            /\ failed' = IF Recover' # before /\ Recover' # after
                         THEN Append(failed, Fail("CrashSafe")) ELSE failed

Spec == Init /\ [][Step]_vars

Done == l = Len(Trace) + 1
Finish == Done => JsonSerialize(ResultFile,
              [consumed |-> l - 1, records |-> Len(Trace), runs |-> nruns, failed |-> failed, recs |-> recs])
=============================================================================
