// Package rawfs is the independent raw reader of a replica directory: it parses
// volume.meta / *.img.meta itself, finds data extents with SEEK_DATA/SEEK_HOLE
// (not FIEMAP, which the engine uses) and reads the blocks with O_DIRECT.  It
// never calls into the replica engine, so it neither shares its bugs nor
// perturbs its block map.  (DESIGN.md 4.4)
package rawfs

import (
	"encoding/json"
	"fmt"
	"io/ioutil"
	"path/filepath"
	"regexp"
	"strconv"
	"strings"
	"syscall"
	"unsafe"
)

const (
	BlockSize  = 4096
	SectorSize = 512
	SPB        = BlockSize / SectorSize
	seekData   = 3
	seekHole   = 4
)

// File is the projection of one chain member / orphan.
type File struct {
	Parent  string  `json:"parent"`
	User    bool    `json:"user"`
	Removed bool    `json:"removed"`
	Rev     int64   `json:"revc"`
	Data    [][]int `json:"data"` // per block: [] = hole, else SPB sector stamps (-1 = torn sector)
	Bytes   int64   `json:"-"`
}

// Dir is the projection of the whole directory.
type Dir struct {
	MetaOK     bool             `json:"metaok"` // volume.meta exists and parses
	Head       string           `json:"head"`
	Parent     string           `json:"vparent"`
	SizeBlocks int64            `json:"size"`
	Dirty      bool             `json:"dirty"`
	Rebuilding bool             `json:"rebuilding"`
	Checkpoint string           `json:"cp"`
	CloneStat  string           `json:"clone"`
	Rev        int64            `json:"rev"` // revision.counter, -1 if unreadable
	Files      map[string]*File `json:"files"`
	Garbage    []string         `json:"garbage"` // *.img.meta that do not parse, *.img without meta, tmp files
}

var (
	headRe = regexp.MustCompile(`^volume-head-(\d+)\.img$`)
	snapRe = regexp.MustCompile(`^volume-snap-(.*)\.img$`)
)

// Norm maps a real file name to the specification's name ("h3", "s-abc").
func Norm(name string) string {
	if name == "" {
		return ""
	}
	if m := headRe.FindStringSubmatch(name); m != nil {
		n, _ := strconv.Atoi(m[1])
		return fmt.Sprintf("h%d", n)
	}
	if m := snapRe.FindStringSubmatch(name); m != nil {
		return "s-" + m[1]
	}
	return "?" + name
}

// Real maps a specification name back to the file name.
func Real(n string) string {
	if strings.HasPrefix(n, "h") {
		if i, err := strconv.Atoi(n[1:]); err == nil {
			return fmt.Sprintf("volume-head-%03d.img", i)
		}
	}
	if strings.HasPrefix(n, "s-") {
		return "volume-snap-" + n[2:] + ".img"
	}
	return n
}

type volMeta struct {
	Size        int64
	Head        string
	Dirty       bool
	Rebuilding  bool
	Parent      string
	SectorSize  int64
	CloneStatus string
	Checkpoint  string
}

type diskMeta struct {
	Name            string
	Parent          string
	Removed         bool
	UserCreated     bool
	Created         string
	RevisionCounter int64
}

func alignedBlock() []byte {
	buf := make([]byte, 2*BlockSize)
	off := int(uintptr(unsafe.Pointer(&buf[0])) & uintptr(BlockSize-1))
	if off != 0 {
		off = BlockSize - off
	}
	return buf[off : off+BlockSize]
}

// ReadBlocks returns the per-block projection of one sparse file.
func ReadBlocks(path string, nblocks int64) ([][]int, int64, error) {
	fd, err := syscall.Open(path, syscall.O_RDONLY|syscall.O_DIRECT, 0)
	if err != nil {
		return nil, 0, err
	}
	defer syscall.Close(fd)
	var st syscall.Stat_t
	if err := syscall.Fstat(fd, &st); err != nil {
		return nil, 0, err
	}
	fblocks := (st.Size + BlockSize - 1) / BlockSize
	n := nblocks
	if fblocks > n {
		n = fblocks
	}
	out := make([][]int, n)
	for i := range out {
		out[i] = []int{}
	}
	buf := alignedBlock()
	pos := int64(0)
	for pos < st.Size {
		d, err := syscall.Seek(fd, pos, seekData)
		if err != nil { // ENXIO: no more data
			break
		}
		h, err := syscall.Seek(fd, d, seekHole)
		if err != nil {
			h = st.Size
		}
		for b := d / BlockSize; b*BlockSize < h && b < n; b++ {
			if _, err := syscall.Pread(fd, buf, b*BlockSize); err != nil {
				return nil, 0, fmt.Errorf("pread %s block %d: %v", path, b, err)
			}
			out[b] = Stamps(buf)
		}
		pos = h
	}
	return out, st.Size, nil
}

// Stamps projects a block to one stamp per sector (-1 if the sector is not uniform).
func Stamps(buf []byte) []int {
	res := make([]int, len(buf)/SectorSize)
	for s := range res {
		v := buf[s*SectorSize]
		res[s] = int(v)
		for _, c := range buf[s*SectorSize : (s+1)*SectorSize] {
			if c != v {
				res[s] = -1
				break
			}
		}
	}
	return res
}

// Scan projects the directory.
func Scan(dir string) (*Dir, error) {
	d := &Dir{Files: map[string]*File{}, Rev: -1, Garbage: []string{}}
	var vm volMeta
	if b, err := ioutil.ReadFile(filepath.Join(dir, "volume.meta")); err == nil {
		if json.Unmarshal(b, &vm) == nil && vm.Head != "" {
			d.MetaOK = true
			d.Head = Norm(vm.Head)
			d.Parent = Norm(vm.Parent)
			d.SizeBlocks = vm.Size / BlockSize
			d.Dirty = vm.Dirty
			d.Rebuilding = vm.Rebuilding
			d.Checkpoint = Norm(vm.Checkpoint)
			d.CloneStat = vm.CloneStatus
		}
	}
	if b, err := ioutil.ReadFile(filepath.Join(dir, "revision.counter")); err == nil {
		s := strings.Trim(string(b), "\x00")
		if v, err := strconv.ParseInt(s, 10, 64); err == nil {
			d.Rev = v
		}
	}
	ents, err := ioutil.ReadDir(dir)
	if err != nil {
		return nil, err
	}
	names := map[string]bool{}
	for _, e := range ents {
		names[e.Name()] = true
	}
	for _, e := range ents {
		nm := e.Name()
		switch {
		case nm == "volume.meta" || nm == "revision.counter" || nm == "peer.details":
		case strings.HasSuffix(nm, ".img"):
			if !names[nm+".meta"] {
				d.Garbage = append(d.Garbage, Norm(nm)+":nometa")
				continue
			}
			var dm diskMeta
			b, err := ioutil.ReadFile(filepath.Join(dir, nm+".meta"))
			if err != nil || json.Unmarshal(b, &dm) != nil {
				d.Garbage = append(d.Garbage, Norm(nm)+":badmeta")
				continue
			}
			data, sz, err := ReadBlocks(filepath.Join(dir, nm), d.SizeBlocks)
			if err != nil {
				return nil, err
			}
			d.Files[Norm(nm)] = &File{Parent: Norm(dm.Parent), User: dm.UserCreated,
				Removed: dm.Removed, Rev: dm.RevisionCounter, Data: data, Bytes: sz}
		case strings.HasSuffix(nm, ".img.meta"):
			if !names[strings.TrimSuffix(nm, ".meta")] {
				d.Garbage = append(d.Garbage, Norm(strings.TrimSuffix(nm, ".meta"))+":noimg")
			}
		default:
			d.Garbage = append(d.Garbage, "?"+nm)
		}
	}
	return d, nil
}
