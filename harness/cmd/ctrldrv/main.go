// ctrldrv (harness layer L1): one real controller.Controller with a stub
// frontend and the real remote.Factory / rpc client, talking over loopback
// TCP to in-process replica nodes.  A node is a real replica.Server behind the
// real replica REST router and the real rpc server; thin wrappers in front of
// both inject faults (error reply, stall past the deadline, dropped
// connection), log which calls arrived, and intercept the "start" signal.
// The per-backend monitoring goroutine of the controller is held at the
// verif gate so that the scenario decides when it runs.
package main

import (
	"bufio"
	"encoding/json"
	"flag"
	"fmt"
	"io"
	"io/ioutil"
	"math/rand"
	"net"
	"net/http"
	"os"
	"path/filepath"
	"sort"
	"strconv"
	"strings"
	"sync"
	"sync/atomic"
	"time"

	"github.com/openebs/jiva/backend/dynamic"
	"github.com/openebs/jiva/backend/remote"
	"github.com/openebs/jiva/controller"
	"github.com/openebs/jiva/replica"
	ctlrest "github.com/openebs/jiva/controller/rest"
	replicarest "github.com/openebs/jiva/replica/rest"
	"github.com/openebs/jiva/rpc"
	"github.com/openebs/jiva/types"
	"github.com/sirupsen/logrus"

	"verifharness/rawfs"
)

const (
	volBlocks  = 32
	volSectors = 32 // number of write-id slots (historical name: one sector per id in dense layout)
	rpcTimeout = 1500 * time.Millisecond // (long enough for a starved machine: a spurious time-out is a fault the scenario did not inject)
)

// ---------------------------------------------------------------- stub frontend
type stubFrontend struct{ up bool }

func (f *stubFrontend) Startup(name, frontendIP, clusterIP string, size, sectorSize int64, rw types.IOs) error {
	f.up = true
	return nil
}
func (f *stubFrontend) Shutdown() error { f.up = false; return nil }
func (f *stubFrontend) State() types.State {
	if f.up {
		return types.StateUp
	}
	return types.StateDown
}
func (f *stubFrontend) Stats() types.Stats  { return types.Stats{} }
func (f *stubFrontend) Resize(uint64) error { return nil }

// ---------------------------------------------------------------- replica node
type node struct {
	name, ip, dir, uuid string
	s                   *replica.Server
	router              http.Handler
	httpSrv             *http.Server
	rpcL                net.Listener
	mu                  sync.Mutex
	faults              map[string]string // call key -> "err" | "stall" | "drop"
	touched             map[string]int    // calls received during the current event
	conns               []net.Conn
	down                bool
	onRest              func(key string) // observer of management requests (AddRace)
	hang                chan struct{}    // non-nil: the data path does not answer (pings included) until closed
	pingPending         bool             // a ping arrived while the node hangs
}

// blocked reports whether the node hangs; a hanging node answers nothing until released
func (n *node) blocked(isPing bool) bool {
	n.mu.Lock()
	h := n.hang
	if h != nil && isPing {
		n.pingPending = true
	}
	n.mu.Unlock()
	if h == nil {
		return false
	}
	<-h
	return true
}

type drvT struct {
	nodes   map[string]*node // by name a1..a4
	byIP    map[string]*node
	signals []map[string]string
	sigMu   sync.Mutex
}

var drv *drvT

func (n *node) addr() string { return "tcp://" + n.ip + ":9502" }

func (n *node) fault(key string) string {
	n.mu.Lock()
	defer n.mu.Unlock()
	n.touched[key]++
	if f, ok := n.faults[key]; ok {
		return f
	}
	if strings.HasPrefix(key, "rest:") && key != "rest:ping" && key != "rest:start" {
		return n.faults["rest:*"] // every management request of this replica fails
	}
	return ""
}

// data path wrapper around the real replica.Server
type dataProc struct {
	n    *node
	conn net.Conn
}

func (d *dataProc) inject(key string) error {
	if d.n.blocked(false) {
		return fmt.Errorf("injected hang")
	}
	switch d.n.fault(key) {
	case "err":
		return fmt.Errorf("injected %s error", key)
	case "stall":
		time.Sleep(rpcTimeout + 400*time.Millisecond)
		return fmt.Errorf("injected %s stall", key)
	case "drop":
		d.conn.Close()
		return fmt.Errorf("injected %s drop", key)
	}
	return nil
}
func (d *dataProc) ReadAt(b []byte, off int64) (int, error) {
	if err := d.inject("read"); err != nil {
		return 0, err
	}
	return d.n.s.ReadAt(b, off)
}
func (d *dataProc) WriteAt(b []byte, off int64) (int, error) {
	if err := d.inject("write"); err != nil {
		return 0, err
	}
	return d.n.s.WriteAt(b, off)
}
func (d *dataProc) Sync() (int, error) {
	if err := d.inject("sync"); err != nil {
		return -1, err
	}
	return d.n.s.Sync()
}
func (d *dataProc) Unmap(off, l int64) (int, error) {
	if err := d.inject("unmap"); err != nil {
		return -1, err
	}
	// unmap of a never-used range: no data effect in these scenarios
	return d.n.s.Unmap(off, l)
}
func (d *dataProc) Close() error { return nil }
func (d *dataProc) PingResponse() error {
	if d.n.blocked(true) {
		return fmt.Errorf("injected hang")
	}
	d.n.mu.Lock()
	f := d.n.faults["ping"]
	d.n.mu.Unlock()
	if f != "" {
		return fmt.Errorf("injected ping failure")
	}
	return d.n.s.PingResponse()
}

func (n *node) ServeHTTP(w http.ResponseWriter, r *http.Request) {
	key := "rest:info"
	if r.URL.Path == "/ping" {
		key = "rest:ping"
	} else if a := r.URL.Query().Get("action"); a != "" {
		key = "rest:" + a
	}
	f := n.fault(key)
	n.mu.Lock()
	down := n.down
	obs := n.onRest
	n.mu.Unlock()
	if obs != nil {
		obs(key)
	}
	if down {
		http.Error(w, "node down", http.StatusServiceUnavailable)
		return
	}
	if key == "rest:start" {
		// the start / add signal of the controller: never forwarded (the real
		// handler feeds a process-global channel), only recorded
		var body struct {
			Action string `json:"Action"`
		}
		b, _ := ioutil.ReadAll(r.Body)
		json.Unmarshal(b, &body)
		drv.sigMu.Lock()
		drv.signals = append(drv.signals, map[string]string{"to": n.name, "action": body.Action, "ok": fmt.Sprint(f == "")})
		drv.sigMu.Unlock()
		if f != "" {
			http.Error(w, "injected", http.StatusInternalServerError)
			return
		}
		w.WriteHeader(http.StatusOK)
		return
	}
	if f != "" {
		http.Error(w, "injected "+key+" failure", http.StatusInternalServerError)
		return
	}
	n.router.ServeHTTP(w, r)
}

func newNode(name, ip, dir string, size int64) (*node, error) {
	n := &node{name: name, ip: ip, dir: dir, faults: map[string]string{}, touched: map[string]int{}}
	if err := os.MkdirAll(dir, 0700); err != nil {
		return nil, err
	}
	n.s = replica.NewServer(ip+":9502", dir, 512, "Backend")
	if err := n.s.Create(size); err != nil {
		return nil, err
	}
	info, err := replica.ReadInfo(dir)
	if err != nil {
		return nil, err
	}
	n.uuid = info.UUID
	// a regular replica process records clone status "NA" right after its first
	// open (app/replica.go); set it in the persisted metadata up front
	{
		p := filepath.Join(dir, "volume.meta")
		b, err := ioutil.ReadFile(p)
		if err != nil {
			return nil, err
		}
		m := map[string]interface{}{}
		if err := json.Unmarshal(b, &m); err != nil {
			return nil, err
		}
		m["CloneStatus"] = "NA"
		b, _ = json.Marshal(m)
		if err := ioutil.WriteFile(p, b, 0600); err != nil {
			return nil, err
		}
	}
	n.router = replicarest.NewRouter(replicarest.NewServer(n.s))
	hl, err := net.Listen("tcp", ip+":9502")
	if err != nil {
		return nil, err
	}
	n.httpSrv = &http.Server{Handler: n}
	go n.httpSrv.Serve(hl)
	n.rpcL, err = net.Listen("tcp", ip+":9503")
	if err != nil {
		return nil, err
	}
	go n.acceptLoop()
	return n, nil
}

func (n *node) acceptLoop() {
	for {
		c, err := n.rpcL.Accept()
		if err != nil {
			return
		}
		n.mu.Lock()
		n.conns = append(n.conns, c)
		n.mu.Unlock()
		go func(c net.Conn) {
			srv := rpc.NewServer(c, &dataProc{n: n, conn: c})
			srv.Handle()
			c.Close()
			// the real replica closes itself (and exits) when its data connection ends
			n.mu.Lock()
			last := len(n.conns) > 0 && n.conns[len(n.conns)-1] == c
			n.mu.Unlock()
			if last {
				n.s.Close()
			}
		}(c)
	}
}

// restart: the replica process dies and comes back: connections gone, replica closed
func (n *node) restart() {
	n.mu.Lock()
	conns := n.conns
	n.conns = nil
	n.mu.Unlock()
	for _, c := range conns {
		c.Close()
	}
	n.s.Close()
}

func (n *node) stop() {
	n.httpSrv.Close()
	n.rpcL.Close()
	n.restart()
}

// ---------------------------------------------------------------- factory wrapper
type factory struct {
	real       types.BackendFactory
	mu         sync.Mutex
	createFail map[string]bool
	onCreate   func(address string) // gate / event
	created    []string
}

func (f *factory) Create(address string) (types.Backend, error) {
	if f.onCreate != nil {
		f.onCreate(address)
	}
	f.mu.Lock()
	fail := f.createFail[address]
	f.mu.Unlock()
	if fail {
		return nil, fmt.Errorf("injected create failure")
	}
	b, err := f.real.Create(address)
	if err == nil {
		f.mu.Lock()
		f.created = append(f.created, address)
		f.mu.Unlock()
	}
	return b, err
}

// count of backend instances created for an address, and the retraction of the newest one: an
// add / start that fails after factory.Create never starts the instance's monitoring goroutine,
// so nobody must wait for it at the gate
func (f *factory) count(address string) int {
	f.mu.Lock()
	defer f.mu.Unlock()
	k := 0
	for _, a := range f.created {
		if a == address {
			k++
		}
	}
	return k
}
func (f *factory) retract(address string, mark int, err error) {
	if err == nil || f.count(address) <= mark {
		return
	}
	f.mu.Lock()
	defer f.mu.Unlock()
	for i := len(f.created) - 1; i >= 0; i-- {
		if f.created[i] == address {
			f.created = append(f.created[:i], f.created[i+1:]...)
			return
		}
	}
}
func (f *factory) SignalToAdd(a, action string) error { return f.real.SignalToAdd(a, action) }
func (f *factory) VerifyReplicaAlive(a string) bool   { return f.real.VerifyReplicaAlive(a) }

// ---------------------------------------------------------------- monitor gates
type gateT struct {
	mu       sync.Mutex
	arrived  map[string]int           // address -> monitors waiting at the gate
	total    map[string]int           // address -> monitors ever arrived
	release  map[string]chan struct{} // address -> release tokens
	done     chan string
	released bool
}

func newGate() *gateT {
	return &gateT{arrived: map[string]int{}, total: map[string]int{}, release: map[string]chan struct{}{}, done: make(chan string, 64)}
}
func (g *gateT) ch(a string) chan struct{} {
	if g.release[a] == nil {
		g.release[a] = make(chan struct{}, 64)
	}
	return g.release[a]
}
func (g *gateT) gate(a string) {
	g.mu.Lock()
	if g.released {
		g.mu.Unlock()
		return
	}
	g.arrived[a]++
	g.total[a]++
	c := g.ch(a)
	g.mu.Unlock()
	<-c
}
func (g *gateT) doneHook(a string) {
	select {
	case g.done <- a:
	default:
	}
}

// ---------------------------------------------------------------- driver
type Op struct {
	Ev   string   `json:"ev"`
	A    string   `json:"a,omitempty"`
	Src  string   `json:"src,omitempty"`
	Sf   bool     `json:"sf,omitempty"`
	Af   bool     `json:"af,omitempty"`
	Cf   bool     `json:"cf,omitempty"`
	Mf   bool     `json:"mf,omitempty"` // Add: the joiner's setreplicamode(WO) fails
	Cs   string   `json:"cs,omitempty"`  // Start: the replica's persisted clone status (clone fixture)
	Cs2  string   `json:"cs2,omitempty"` // Start: the status it changes to while the controller polls
	F    []string `json:"F,omitempty"` // armed faults (node names)
	Kind string   `json:"kind,omitempty"`
	Name string   `json:"name,omitempty"`
	Mode string   `json:"mode,omitempty"`
	Rev  int64    `json:"rev,omitempty"`
	K    int      `json:"k,omitempty"` // Race: number of concurrent writes
}

// stride: 512-byte sectors between the slots of consecutive write ids.  8 = every id in its own
// 4 KiB block (default: a sub-block write shares its block with nothing, so the replica engine's
// read-modify-write cannot mix write ids); 1 = dense (ids share blocks: scenarios of the C07 part)
var stride = 8

func off(w int) int64 { return int64(w-1) * int64(stride) * rawfs.SectorSize }

// per-id projection of a per-sector image
func project(sectors []int) []int {
	out := make([]int, volSectors)
	for i := range out {
		if i*stride < len(sectors) {
			out[i] = sectors[i*stride]
		}
	}
	return out
}

type Scenario struct {
	ID  int    `json:"id"`
	RF  int    `json:"rf"`
	N   int    `json:"n"`
	Dense bool `json:"dense,omitempty"`
	Src string `json:"src,omitempty"`
	Ops []Op   `json:"ops"`
}

type run struct {
	sc      Scenario
	c       *controller.Controller
	fe      *stubFrontend
	fac     *factory
	g       *gateT
	names   []string
	w       *bufio.Writer
	seq     int
	t0      time.Time // start of the execution (records carry the elapsed ms)
	nextW   int
	rng     *rand.Rand
	insts   map[string]int // address -> backend instances created
	work    string
	subnet  string
	autoSeq int
	gated   map[string]*gatedAdd
	volBlocksNow int64
}

type gatedAdd struct {
	release chan struct{}
	done    chan error
	before  map[string][]string
}

func (r *run) node(name string) *node { return drv.nodes[name] }

func (r *run) nameOf(address string) string {
	for _, n := range drv.nodes {
		if n.addr() == address || n.ip == address {
			return n.name
		}
	}
	return "?" + address
}

func (r *run) arm(names []string, key, mode string) {
	for _, nm := range names {
		n := r.node(nm)
		n.mu.Lock()
		n.faults[key] = mode
		n.mu.Unlock()
	}
}

func (r *run) disarm() {
	for _, n := range drv.nodes {
		n.mu.Lock()
		n.faults = map[string]string{}
		n.mu.Unlock()
	}
}

func (r *run) resetTouched() {
	for _, n := range drv.nodes {
		n.mu.Lock()
		n.touched = map[string]int{}
		n.mu.Unlock()
	}
	drv.sigMu.Lock()
	drv.signals = nil
	drv.sigMu.Unlock()
}

// expected number of monitor goroutines that must have reached the gate:
// every backend instance that is no longer attached in good standing
// what a replica process does before it registers or asks to be added (sync.Task
// checkAndResetFailedRebuild): a rebuilding flag left by an interrupted or refused rebuild is cleared
func (r *run) resetFailedRebuild(n *node) {
	st, info := n.s.Status()
	if st == replica.Closed && info.Rebuilding {
		if n.s.Open() == nil {
			n.s.SetRebuilding(false)
			n.s.Close()
		}
	}
}

func (r *run) waitMonitors() {
	deadline := time.Now().Add(6 * time.Second)
	for {
		pending := false
		attached := map[string]types.Mode{}
		for _, rep := range r.c.ListReplicas() {
			attached[rep.Address] = rep.Mode
		}
		r.fac.mu.Lock()
		insts := map[string]int{}
		for _, a := range r.fac.created {
			insts[a]++
		}
		r.fac.mu.Unlock()
		r.g.mu.Lock()
		for a, k := range insts {
			want := k
			if m, ok := attached[a]; ok && m != types.ERR {
				n := r.node(r.nameOf(a))
				n.mu.Lock()
				alive := len(n.conns) > 0
				n.mu.Unlock()
				if alive {
					want = k - 1 // the live instance's monitor is still waiting
				}
			}
			if r.g.total[a] < want {
				pending = true
			}
		}
		r.g.mu.Unlock()
		if !pending || time.Now().After(deadline) {
			return
		}
		time.Sleep(2 * time.Millisecond)
	}
}

type NodeState struct {
	State      string              `json:"state"`
	Mode       string              `json:"mode"`
	Rev        int64               `json:"rev"`
	Rebuilding bool                `json:"rebuilding"`
	Snaps      []string            `json:"snaps"` // oldest first
	CP         string              `json:"cp"`
	Log        []int               `json:"log"`    // write ids present in the live image
	SnapAt     map[string][]int    `json:"snapat"` // user snapshot -> write ids in its image
	User       map[string]bool     `json:"user"`
	Touched    map[string]int      `json:"touched"`
	Size       int64               `json:"size"` // volume size in 4 KiB blocks (raw volume.meta)
	Image      []int               `json:"-"`
}

func imageOf(d *rawfs.Dir, top string) []int {
	img := make([]int, volBlocks*rawfs.SPB)
	// walk base -> top
	path := []string{}
	for cur := top; cur != ""; {
		f, ok := d.Files[cur]
		if !ok {
			break
		}
		path = append([]string{cur}, path...)
		cur = f.Parent
	}
	for _, nm := range path {
		f := d.Files[nm]
		for b := 0; b < volBlocks && b < len(f.Data); b++ {
			if len(f.Data[b]) == rawfs.SPB {
				copy(img[b*rawfs.SPB:], f.Data[b])
			}
		}
	}
	return project(img)
}

func idsIn(img []int) []int {
	out := []int{}
	for s, v := range img {
		if v != 0 && v == s+1 {
			out = append(out, v)
		}
	}
	return out
}

func (r *run) nodeState(n *node) NodeState {
	st := NodeState{Snaps: []string{}, Log: []int{}, SnapAt: map[string][]int{}, User: map[string]bool{}, Touched: map[string]int{}}
	state, _ := n.s.Status()
	st.State = string(state)
	if state == replica.Dirty || state == replica.Rebuilding {
		st.State = "open"
	}
	st.Mode = "CLOSED"
	if rep := n.s.Replica(); rep != nil {
		st.Mode = rep.GetReplicaMode()
	}
	d, err := rawfs.Scan(n.dir)
	if err != nil {
		fmt.Fprintln(os.Stderr, "HARNESS-ERROR: scan", err)
		os.Exit(2)
	}
	st.Rev = d.Rev
	st.Size = d.SizeBlocks
	st.Rebuilding = d.Rebuilding
	st.CP = strings.TrimPrefix(d.Checkpoint, "s-")
	for cur := d.Files[d.Head]; cur != nil && cur.Parent != ""; cur = d.Files[cur.Parent] {
		st.Snaps = append([]string{strings.TrimPrefix(cur.Parent, "s-")}, st.Snaps...)
		if p := d.Files[cur.Parent]; p != nil && p.User {
			st.User[strings.TrimPrefix(cur.Parent, "s-")] = true
			st.SnapAt[strings.TrimPrefix(cur.Parent, "s-")] = idsIn(imageOf(d, cur.Parent))
		}
	}
	st.Image = imageOf(d, d.Head)
	st.Log = idsIn(st.Image)
	n.mu.Lock()
	for k, v := range n.touched {
		st.Touched[k] = v
	}
	n.mu.Unlock()
	return st
}

type CtlState struct {
	Replicas   map[string]string `json:"replicas"`
	Order      []string          `json:"order"`
	Dups       bool              `json:"dups"`
	Backends   map[string]string `json:"backends"`
	Readers    []string          `json:"readers"`
	Writers    []string          `json:"writers"`
	ReadOnly   bool              `json:"readOnly"`
	RWCount    int               `json:"rwCount"`
	Checkpoint string            `json:"checkpoint"`
	MaxRev     string            `json:"maxRev"`
	Signalled  bool              `json:"signalled"`
	Registered map[string]int64  `json:"registered"`
	FrontendUp bool              `json:"frontendUp"`
	MonNote    map[string]int    `json:"monNote"`
}

func (r *run) ctlState() CtlState {
	c := r.c
	st := CtlState{Replicas: map[string]string{}, Backends: map[string]string{}, Registered: map[string]int64{}, MonNote: map[string]int{},
		Readers: []string{}, Writers: []string{}, Order: []string{}}
	for _, rep := range c.ListReplicas() {
		nm := r.nameOf(rep.Address)
		if _, dup := st.Replicas[nm]; dup {
			st.Dups = true
		}
		st.Replicas[nm] = string(rep.Mode)
		st.Order = append(st.Order, nm)
	}
	vs := c.VerifState()
	for a, m := range vs.Backends {
		st.Backends[r.nameOf(a)] = string(m)
	}
	for _, a := range vs.Readers {
		st.Readers = append(st.Readers, r.nameOf(a))
	}
	for _, a := range vs.Writers {
		st.Writers = append(st.Writers, r.nameOf(a))
	}
	sort.Strings(st.Readers)
	sort.Strings(st.Writers)
	st.ReadOnly = c.ReadOnly
	st.RWCount = c.RWReplicaCount
	st.Checkpoint = strings.TrimSuffix(strings.TrimPrefix(c.Checkpoint, "volume-snap-"), ".img")
	if c.MaxRevReplica != "" {
		st.MaxRev = r.nameOf(c.MaxRevReplica)
	}
	st.Signalled = c.StartSignalled
	for ip, rg := range c.RegisteredReplicas {
		st.Registered[r.nameOf(ip)] = rg.RevCount
	}
	st.FrontendUp = r.fe.up
	r.g.mu.Lock()
	for _, nm := range r.names {
		st.MonNote[nm] = r.g.arrived[r.node(nm).addr()]
	}
	r.g.mu.Unlock()
	return st
}

func (r *run) emit(ev string, a map[string]interface{}, res string, errText string, extra map[string]interface{}) {
	r.waitMonitors()
	r.seq++
	nodes := map[string]NodeState{}
	for _, nm := range r.names {
		nodes[nm] = r.nodeState(r.node(nm))
	}
	drv.sigMu.Lock()
	sigs := drv.signals
	drv.sigMu.Unlock()
	if sigs == nil {
		sigs = []map[string]string{}
	}
	if a == nil {
		a = map[string]interface{}{}
	}
	e := map[string]interface{}{"t": r.sc.ID, "seq": r.seq, "ev": ev, "a": a, "res": res, "err": errText,
		"signals": sigs, "ctl": r.ctlState(), "nodes": nodes, "ms": time.Since(r.t0).Milliseconds()}
	for k, v := range extra {
		e[k] = v
	}
	b, err := json.Marshal(e)
	if err != nil {
		panic(err)
	}
	r.w.Write(b)
	r.w.WriteByte('\n')
}

// one of several concurrent calls: only its result and the replicas it reached are
// recorded; the closing record of the group carries the state
func (r *run) emitPartial(e map[string]interface{}) {
	r.seq++
	e["seq"] = r.seq
	b, err := json.Marshal(e)
	if err != nil {
		panic(err)
	}
	r.w.Write(b)
	r.w.WriteByte('\n')
}

func resOf(err error) (string, string) {
	if err != nil {
		return "refused", err.Error()
	}
	return "ok", ""
}

func strs(x []string) []string {
	if x == nil {
		return []string{}
	}
	return x
}

func (r *run) touchedData() []string {
	out := []string{}
	for _, nm := range r.names {
		n := r.node(nm)
		n.mu.Lock()
		if n.touched["read"]+n.touched["write"]+n.touched["sync"]+n.touched["unmap"] > 0 {
			out = append(out, nm)
		}
		n.mu.Unlock()
	}
	return out
}

// watchdog: an operation that does not come back (a wedged controller) becomes a "Hang"
// record; the process exits with status 3 and the recorded prefix is still validated
var opDeadline int64 // unix nanos, 0 = idle
var curOp Op
var curRun *run

func watchdog() {
	for {
		time.Sleep(500 * time.Millisecond)
		dl := atomic.LoadInt64(&opDeadline)
		if r := curRun; r != nil && dl != 0 && time.Now().UnixNano() > dl {
			b, _ := json.Marshal(map[string]interface{}{"t": r.sc.ID, "seq": r.seq + 1, "ev": "Hang",
				"a": map[string]interface{}{"op": curOp.Ev, "a": curOp.A, "opjson": curOp}, "res": "hang", "err": "operation did not return in 60s",
				"touched": []string{}, "partial": true})
			r.w.Write(b)
			r.w.WriteByte('\n')
			r.w.Flush()
			fmt.Fprintln(os.Stderr, "HANG in", curOp.Ev, "scenario", r.sc.ID)
			os.Exit(3)
		}
	}
}

func (r *run) exec(op Op) {
	curOp = op
	atomic.StoreInt64(&opDeadline, time.Now().Add(60*time.Second).UnixNano())
	defer atomic.StoreInt64(&opDeadline, 0)
	defer func() {
		// a panic inside the controller (a REST handler would turn it into a dropped
		// connection) is an observation, not a harness failure
		if p := recover(); p != nil {
			r.disarm()
			r.c.TryLock()
			r.c.Unlock()
			r.emit("Panic", map[string]interface{}{"op": op.Ev, "a": op.A}, "panic", fmt.Sprint(p), nil)
		}
	}()
	r.exec1(op)
}

func (r *run) exec1(op Op) {
	c := r.c
	r.resetTouched()
	defer r.disarm()
	switch op.Ev {
	case "Register":
		n := r.node(op.A)
		if op.Sf {
			for _, nm := range r.names {
				r.arm([]string{nm}, "rest:start", "err")
			}
		}
		if op.Af {
			for _, nm := range r.names {
				r.arm([]string{nm}, "rest:ping", "err")
			}
		}
		// what sync.Task.AddReplica sends: revision counter and previous state from disk
		tmp, _ := replica.CreateTempReplica(n.s)
		tsrv, _ := replica.CreateTempServer(n.s)
		state, _ := tsrv.PrevStatus()
		rev := tmp.GetRevisionCounter()
		err := c.RegisterReplica(types.RegReplica{Address: n.ip, UUID: n.uuid, RevCount: rev, RepType: "Backend", RepState: string(state), UpTime: time.Second})
		res, et := resOf(err)
		r.emit("Register", map[string]interface{}{"a": op.A, "rev": rev, "st": string(state), "sf": op.Sf, "af": op.Af}, res, et, nil)
	case "RegisterQuorum":
		// a quorum-type replica (no data) registers: recorded by the controller, it neither counts
		// towards the majority of data replicas nor takes part in the election
		err := c.RegisterReplica(types.RegReplica{Address: r.subnet + ".99", UUID: "quorum-uuid", RevCount: 0,
			RepType: "quorum", RepState: "closed", UpTime: time.Second})
		res, et := resOf(err)
		r.emit("RegisterQuorum", map[string]interface{}{}, res, et, nil)
	case "Start":
		n := r.node(op.A)
		if op.Cf {
			r.fac.mu.Lock()
			r.fac.createFail[n.addr()] = true
			r.fac.mu.Unlock()
		}
		// clone fixture: the replica's persisted clone status before the start (cs), and the status
		// it changes to 2.5 s later while the controller polls it (cs2)
		final := op.Cs
		if op.Cs != "" || op.Cs2 != "" {
			if st, _ := n.s.Status(); st == replica.Closed {
				if n.s.Open() == nil {
					if rp := n.s.Replica(); rp != nil {
						rp.SetCloneStatus(op.Cs)
					}
					n.s.Close()
				}
			}
			if op.Cs2 != "" {
				final = op.Cs2
				go func() {
					time.Sleep(2500 * time.Millisecond)
					if rp := n.s.Replica(); rp != nil {
						rp.SetCloneStatus(op.Cs2)
					}
				}()
			}
		}
		r.resetFailedRebuild(n)
		mark := r.fac.count(n.addr())
		err := c.Start(n.addr())
		if err == nil || !strings.Contains(err.Error(), "clone status returned error") {
			r.fac.retract(n.addr(), mark, err) // (a failed clone was attached for a moment: its monitor exists)
		}
		r.fac.mu.Lock()
		r.fac.createFail = map[string]bool{}
		r.fac.mu.Unlock()
		res, et := resOf(err)
		r.emit("Start", map[string]interface{}{"a": op.A, "cf": op.Cf, "cs": final}, res, et, nil)
	case "Add":
		n := r.node(op.A)
		if op.Cf {
			r.fac.mu.Lock()
			r.fac.createFail[n.addr()] = true
			r.fac.mu.Unlock()
		}
		r.arm(op.F, "rest:snapshot", "err")
		sF := append([]string{}, op.F...)
		if op.Mf {
			// the joiner refuses the switch to WO (after it took the add's snapshot)
			r.arm([]string{op.A}, "rest:setreplicamode", "err")
			sF = append(sF, "modefail")
		}
		before := map[string][]string{}
		for _, nm := range r.names {
			before[nm] = r.nodeState(r.node(nm)).Snaps
		}
		reached := false
		r.fac.onCreate = func(address string) { reached = true }
		r.resetFailedRebuild(n)
		mark := r.fac.count(n.addr())
		err := c.AddReplica(n.addr())
		r.fac.retract(n.addr(), mark, err)
		r.fac.onCreate = nil
		r.fac.mu.Lock()
		r.fac.createFail = map[string]bool{}
		r.fac.mu.Unlock()
		res, et := resOf(err)
		// name of the automatic snapshot the add created (if any)
		name := ""
		for _, nm := range r.names {
			after := r.nodeState(r.node(nm)).Snaps
			if len(after) > len(before[nm]) {
				name = after[len(after)-1]
			}
		}
		if !reached {
			r.emit("AddCheck", map[string]interface{}{"a": op.A}, res, et, nil)
		} else {
			r.emit("Add", map[string]interface{}{"a": op.A, "cf": op.Cf, "S": sF, "name": name}, res, et, nil)
		}
	case "Resize":
		// grow the volume by one block through the controller; F = replicas whose own resize fails.
		// Afterwards every replica the controller did not reach (failed, ERR, detached, closed) is
		// grown directly: replicas of one volume are provisioned alike (environment).
		r.volBlocksNow++
		nb := r.volBlocksNow
		sz := strconv.FormatInt(nb*rawfs.BlockSize, 10)
		r.arm(op.F, "rest:resize", "err")
		err := c.Resize("vol", sz)
		r.disarm()
		res, et := resOf(err)
		if err != nil {
			r.volBlocksNow--
		} else {
			for _, nm := range r.names {
				n := r.node(nm)
				mode, member := r.members()[nm]
				if member && (mode == "RW" || mode == "WO") {
					armed := false
					for _, f := range op.F {
						armed = armed || f == nm
					}
					if !armed {
						continue // the controller's business: judged by the rule SizesAgree
					}
				}
				if d, derr := rawfs.Scan(n.dir); derr == nil && d.SizeBlocks >= nb {
					continue
				}
				if n.s.Replica() != nil {
					n.s.Resize(sz)
				} else {
					tmp := replica.NewServer(n.ip+":9502", n.dir, 512, "Backend")
					if tmp.Open() == nil {
						tmp.Resize(sz)
						tmp.Close()
					}
				}
			}
		}
		r.emit("Resize", map[string]interface{}{"nb": nb, "F": strs(op.F)}, res, et, nil)
	case "WriteOOB", "ReadOOB":
		// I/O that does not lie inside [0, volume size): refused by the controller before any
		// replica is touched.  op.Kind: beyond | straddle | negative
		size := r.volBlocksNow * rawfs.BlockSize
		off := size
		switch op.Kind {
		case "straddle":
			off = size - rawfs.SectorSize/2
		case "negative":
			off = -rawfs.SectorSize
		case "far":
			off = size * 1024
		}
		buf := make([]byte, rawfs.SectorSize)
		for i := range buf {
			buf[i] = 251
		}
		var err error
		var n int
		ev := "Write"
		if op.Ev == "ReadOOB" {
			ev = "Read"
			n, err = c.ReadAt(buf, off)
		} else {
			n, err = c.WriteAt(buf, off)
		}
		if err == nil && n != len(buf) {
			err = fmt.Errorf("short n=%d", n)
		}
		res, et := resOf(err)
		if err != nil {
			res = "failed"
		}
		td := r.touchedData()
		r.emit(ev, map[string]interface{}{"A": []string{}, "w": 0, "mode": "err", "oob": op.Kind}, res, et,
			map[string]interface{}{"touched": td, "T": []string{}, "served": "", "out": []int{}, "shortnil": false})
	case "SnapRace":
		// a volume snapshot contending with K foreground writes (all started behind the held
		// controller lock): a write is before the snapshot iff some replica's snapshot image
		// holds it; the snapshot must have the same content on every replica
		k := op.K
		if k <= 0 {
			k = 6
		}
		type wres struct {
			w   int
			err error
		}
		results := make([]wres, k)
		var wg sync.WaitGroup
		var snapErr error
		c.Lock()
		startW := func(i int) {
			r.nextW++
			w := r.nextW
			results[i].w = w
			wg.Add(1)
			go func() {
				defer wg.Done()
				buf := make([]byte, rawfs.SectorSize)
				for j := range buf {
					buf[j] = byte(w)
				}
				nn, err := c.WriteAt(buf, off(w))
				if err == nil && nn != len(buf) {
					err = fmt.Errorf("incomplete write n=%d", nn)
				}
				results[i].err = err
			}()
		}
		half := (k + 1) / 2
		for i := 0; i < half; i++ {
			startW(i)
		}
		time.Sleep(20 * time.Millisecond)
		wg.Add(1)
		go func() {
			defer wg.Done()
			_, snapErr = c.Snapshot(op.Name)
		}()
		time.Sleep(20 * time.Millisecond)
		for i := half; i < k; i++ {
			startW(i)
		}
		time.Sleep(20 * time.Millisecond)
		c.Unlock()
		wg.Wait()
		has := map[string]map[int]bool{}
		inSnap := map[int]bool{}
		for _, nm := range r.names {
			has[nm] = map[int]bool{}
			st := r.nodeState(r.node(nm))
			for _, id := range st.Log {
				has[nm][id] = true
			}
			for _, id := range st.SnapAt[op.Name] {
				inSnap[id] = true
			}
		}
		emitW := func(x wres) {
			td := []string{}
			for _, nm := range r.names {
				if has[nm][x.w] {
					td = append(td, nm)
				}
			}
			res, et := resOf(x.err)
			if x.err != nil {
				res = "failed"
			}
			r.emitPartial(map[string]interface{}{"t": r.sc.ID, "ev": "Write", "a": map[string]interface{}{"A": []string{}, "w": x.w, "mode": "err"},
				"res": res, "err": et, "touched": td, "partial": true})
		}
		sort.Slice(results, func(i, j int) bool { return results[i].w < results[j].w })
		for _, x := range results {
			if inSnap[x.w] {
				emitW(x)
			}
		}
		sres, set := resOf(snapErr)
		r.emitPartial(map[string]interface{}{"t": r.sc.ID, "ev": "Snapshot", "a": map[string]interface{}{"name": op.Name, "S": []string{}},
			"res": sres, "err": set, "touched": []string{}, "partial": true})
		for _, x := range results {
			if !inSnap[x.w] {
				emitW(x)
			}
		}
		r.emit("Noop", map[string]interface{}{"snaprace": op.Name, "k": k}, "ok", "", nil)
	case "SnapRemove":
		// a volume snapshot with a RemoveReplica(op.A) that is issued the moment the snapshot
		// makes its first management call to a replica -- i.e. while Snapshot executes.  The
		// removal came first iff the removed replica does not hold the snapshot.
		kickSR := make(chan struct{}, 1)
		for _, nm := range r.names {
			nd := r.node(nm)
			nd.mu.Lock()
			nd.onRest = func(key string) {
				select {
				case kickSR <- struct{}{}:
				default:
				}
			}
			nd.mu.Unlock()
		}
		var rmErr error
		rmDone := make(chan struct{})
		stop := make(chan struct{})
		go func() {
			defer close(rmDone)
			select {
			case <-kickSR:
			case <-stop: // the snapshot made no management call: the removal follows it
			}
			rmErr = c.RemoveReplica(r.node(op.A).addr())
		}()
		_, snapErr := c.Snapshot(op.Name)
		close(stop)
		<-rmDone
		for _, nm := range r.names {
			nd := r.node(nm)
			nd.mu.Lock()
			nd.onRest = nil
			nd.mu.Unlock()
		}
		holds := false
		for _, sn := range r.nodeState(r.node(op.A)).Snaps {
			if sn == op.Name {
				holds = true
			}
		}
		sres, set := resOf(snapErr)
		rres, ret := resOf(rmErr)
		emitS := func() {
			r.emitPartial(map[string]interface{}{"t": r.sc.ID, "ev": "Snapshot", "a": map[string]interface{}{"name": op.Name, "S": []string{}},
				"res": sres, "err": set, "touched": []string{}, "partial": true})
		}
		emitR := func() {
			r.emitPartial(map[string]interface{}{"t": r.sc.ID, "ev": "RemoveReplica", "a": map[string]interface{}{"a": op.A},
				"res": rres, "err": ret, "touched": []string{}, "partial": true})
		}
		if holds || snapErr != nil {
			emitS()
			emitR()
		} else {
			emitR()
			emitS()
		}
		r.emit("Noop", map[string]interface{}{"snapremove": op.Name, "victim": op.A}, "ok", "", nil)
	case "AddRace":
		// an add with foreground writes running flat out while AddReplica executes.  A write
		// the joiner applied came after the add's commit (snapshot on everybody + joiner
		// attached WO), every other write before it -- and is therefore in the snapshot the
		// rebuild copies.
		n := r.node(op.A)
		before := map[string][]string{}
		for _, nm := range r.names {
			before[nm] = r.nodeState(r.node(nm)).Snaps
		}
		reached := false
		r.fac.onCreate = func(address string) { reached = true }
		type wres struct {
			w   int
			err error
		}
		var results []wres
		stop := make(chan struct{})
		wdone := make(chan struct{})
		maxW := op.K
		if maxW <= 0 {
			maxW = 12
		}
		// a write is fired whenever a replica receives a management request during the add
		// (the places where the controller waits for somebody else): it runs as soon as the
		// controller lock is free
		kick := make(chan struct{}, 64)
		for _, nm := range r.names {
			nd := r.node(nm)
			nd.mu.Lock()
			nd.onRest = func(key string) {
				select {
				case kick <- struct{}{}:
				default:
				}
			}
			nd.mu.Unlock()
		}
		defer func() {
			for _, nm := range r.names {
				nd := r.node(nm)
				nd.mu.Lock()
				nd.onRest = nil
				nd.mu.Unlock()
			}
		}()
		go func() {
			defer close(wdone)
			for i := 0; i < maxW && r.nextW < volSectors-2; i++ {
				if i >= 2 { // the first two go at once, the others wait for a management request
					select {
					case <-stop:
						return
					case <-kick:
					}
				}
				select {
				case <-stop:
					return
				default:
				}
				r.nextW++
				w := r.nextW
				buf := make([]byte, rawfs.SectorSize)
				for j := range buf {
					buf[j] = byte(w)
				}
				nn, err := c.WriteAt(buf, off(w))
				if err == nil && nn != len(buf) {
					err = fmt.Errorf("incomplete write n=%d", nn)
				}
				results = append(results, wres{w, err})
			}
		}()
		time.Sleep(2 * time.Millisecond)
		r.resetFailedRebuild(n)
		mark := r.fac.count(n.addr())
		err := c.AddReplica(n.addr())
		r.fac.retract(n.addr(), mark, err)
		time.Sleep(3 * time.Millisecond)
		close(stop)
		<-wdone
		r.fac.onCreate = nil
		has := map[string]map[int]bool{}
		for _, nm := range r.names {
			has[nm] = map[int]bool{}
			for _, id := range r.nodeState(r.node(nm)).Log {
				has[nm][id] = true
			}
		}
		name := ""
		for _, nm := range r.names {
			after := r.nodeState(r.node(nm)).Snaps
			if len(after) > len(before[nm]) {
				name = after[len(after)-1]
			}
		}
		emitW := func(x wres) {
			td := []string{}
			for _, nm := range r.names {
				if has[nm][x.w] {
					td = append(td, nm)
				}
			}
			res, et := resOf(x.err)
			if x.err != nil {
				res = "failed"
			}
			r.emitPartial(map[string]interface{}{"t": r.sc.ID, "ev": "Write", "a": map[string]interface{}{"A": []string{}, "w": x.w, "mode": "err"},
				"res": res, "err": et, "touched": td, "partial": true})
		}
		for _, x := range results {
			if !has[op.A][x.w] {
				emitW(x)
			}
		}
		ares, aet := resOf(err)
		if !reached {
			r.emitPartial(map[string]interface{}{"t": r.sc.ID, "ev": "AddCheck", "a": map[string]interface{}{"a": op.A},
				"res": ares, "err": aet, "touched": []string{}, "partial": true})
		} else {
			r.emitPartial(map[string]interface{}{"t": r.sc.ID, "ev": "AddCheck", "a": map[string]interface{}{"a": op.A},
				"res": "ok", "err": "", "touched": []string{}, "partial": true})
			r.emitPartial(map[string]interface{}{"t": r.sc.ID, "ev": "AddCommit", "a": map[string]interface{}{"a": op.A, "cf": false, "S": []string{}, "name": name},
				"res": ares, "err": aet, "touched": []string{}, "partial": true})
		}
		for _, x := range results {
			if has[op.A][x.w] {
				emitW(x)
			}
		}
		r.emit("Noop", map[string]interface{}{"addrace": op.A, "k": maxW}, "ok", "", nil)
	case "AddBegin":
		// first locked section of addReplica; factory.Create is held at the gate
		n := r.node(op.A)
		if r.gated == nil {
			r.gated = map[string]*gatedAdd{}
		}
		if _, busy := r.gated[op.A]; busy {
			r.emit("Noop", map[string]interface{}{"a": op.A}, "ok", "", nil)
			return
		}
		g := &gatedAdd{release: make(chan struct{}), done: make(chan error, 1), before: map[string][]string{}}
		for _, nm := range r.names {
			g.before[nm] = r.nodeState(r.node(nm)).Snaps
		}
		arrived := make(chan struct{}, 1)
		want := n.addr()
		var once int32
		r.fac.onCreate = func(address string) {
			if address == want && atomic.CompareAndSwapInt32(&once, 0, 1) {
				arrived <- struct{}{}
				<-g.release
			}
		}
		r.resetFailedRebuild(n)
		markB := r.fac.count(want)
		go func() { g.done <- c.AddReplica(want) }()
		select {
		case <-arrived:
			r.gated[op.A] = g
			r.emit("AddCheck", map[string]interface{}{"a": op.A, "gated": true}, "ok", "", nil)
		case err := <-g.done:
			r.fac.onCreate = nil
			r.fac.retract(want, markB, err)
			res, et := resOf(err)
			r.emit("AddCheck", map[string]interface{}{"a": op.A}, res, et, nil)
		}
	case "AddEnd":
		g := r.gated[op.A]
		if g == nil {
			r.emit("Noop", map[string]interface{}{"a": op.A}, "ok", "", nil)
			return
		}
		n := r.node(op.A)
		delete(r.gated, op.A)
		if op.Cf {
			r.fac.mu.Lock()
			r.fac.createFail[n.addr()] = true
			r.fac.mu.Unlock()
		}
		r.arm(op.F, "rest:snapshot", "err")
		r.fac.onCreate = nil
		// (other operations may have run since AddBegin: the add's snapshot is what is new now)
		for _, nm := range r.names {
			g.before[nm] = r.nodeState(r.node(nm)).Snaps
		}
		mark := r.fac.count(n.addr())
		close(g.release)
		err := <-g.done
		r.fac.retract(n.addr(), mark, err)
		r.fac.mu.Lock()
		r.fac.createFail = map[string]bool{}
		r.fac.mu.Unlock()
		res, et := resOf(err)
		name := ""
		for _, nm := range r.names {
			after := r.nodeState(r.node(nm)).Snaps
			if len(after) > len(g.before[nm]) {
				name = after[len(after)-1]
			}
		}
		r.emit("AddCommit", map[string]interface{}{"a": op.A, "cf": op.Cf, "S": strs(op.F), "name": name}, res, et, nil)
	case "RebuildCopy":
		if st, _ := r.node(op.A).s.Status(); r.members()[op.A] != "WO" || r.members()[op.Src] != "RW" ||
			st == replica.Closed || r.node(op.Src).s.Replica() == nil {
			// the scenario's add did not go through (or the source is gone): nothing to copy
			r.emit("Noop", map[string]interface{}{"a": op.A}, "ok", "", nil)
			return
		}
		err := r.rebuildCopy(op.A, op.Src)
		res, et := resOf(err)
		if err != nil {
			fmt.Fprintln(os.Stderr, "HARNESS-ERROR: rebuild copy:", err)
			os.Exit(2)
		}
		r.emit("RebuildCopy", map[string]interface{}{"a": op.A, "src": op.Src}, res, et, nil)
	case "Verify":
		n := r.node(op.A)
		r.arm(op.F, "rest:setcheckpoint", "err")
		if st, _ := n.s.Status(); st == replica.Open || st == replica.Dirty {
			// sync.Task.AddReplica always sets rebuilding before it asks for the verification
			if m, ok := r.members()[op.A]; ok && m == "WO" {
				n.s.SetRebuilding(true)
			}
		}
		err := c.VerifyRebuildReplica(n.addr())
		if err == nil {
			n.s.SetRebuilding(false)
		}
		res, et := resOf(err)
		r.emit("VerifyRebuild", map[string]interface{}{"a": op.A, "F": strs(op.F)}, res, et, nil)
	case "Remove":
		err := c.RemoveReplica(r.node(op.A).addr())
		res, et := resOf(err)
		r.emit("RemoveReplica", map[string]interface{}{"a": op.A}, res, et, nil)
	case "Race":
		// K writes and one RemoveReplica(op.A) contend for the controller: they are all
		// started while the driver holds the controller lock, then released together.
		// Whatever order the lock hands out, it must be explainable as a sequence: the
		// writes the removed replica applied came before its removal, the others after.
		k := op.K
		if k <= 0 {
			k = 6
		}
		type wres struct {
			w   int
			n   int
			err error
		}
		results := make([]wres, k)
		var wg sync.WaitGroup
		c.Lock()
		startW := func(i int) {
			r.nextW++
			w := r.nextW
			results[i].w = w
			wg.Add(1)
			go func() {
				defer wg.Done()
				buf := make([]byte, rawfs.SectorSize)
				for j := range buf {
					buf[j] = byte(w)
				}
				n, err := c.WriteAt(buf, off(w))
				if err == nil && n != len(buf) {
					err = fmt.Errorf("incomplete write n=%d", n)
				}
				results[i].n, results[i].err = n, err
			}()
		}
		half := (k + 1) / 2
		for i := 0; i < half; i++ {
			startW(i)
		}
		time.Sleep(30 * time.Millisecond)
		var rmErr error
		wg.Add(1)
		go func() {
			defer wg.Done()
			rmErr = c.RemoveReplica(r.node(op.A).addr())
		}()
		time.Sleep(30 * time.Millisecond)
		for i := half; i < k; i++ {
			startW(i)
		}
		time.Sleep(30 * time.Millisecond)
		c.Unlock()
		wg.Wait()
		// who applied what (raw images)
		has := map[string]map[int]bool{}
		for _, nm := range r.names {
			has[nm] = map[int]bool{}
			for _, id := range r.nodeState(r.node(nm)).Log {
				has[nm][id] = true
			}
		}
		emitW := func(x wres) {
			td := []string{}
			for _, nm := range r.names {
				if has[nm][x.w] {
					td = append(td, nm)
				}
			}
			res, et := resOf(x.err)
			if x.err != nil {
				res = "failed"
			}
			r.emitPartial(map[string]interface{}{"t": r.sc.ID, "ev": "Write", "a": map[string]interface{}{"A": []string{}, "w": x.w, "mode": "err"},
				"res": res, "err": et, "touched": td, "partial": true})
		}
		sort.Slice(results, func(i, j int) bool { return results[i].w < results[j].w })
		for _, x := range results {
			if has[op.A][x.w] {
				emitW(x)
			}
		}
		rres, ret := resOf(rmErr)
		r.emitPartial(map[string]interface{}{"t": r.sc.ID, "ev": "RemoveReplica", "a": map[string]interface{}{"a": op.A},
			"res": rres, "err": ret, "touched": []string{}, "partial": true})
		for _, x := range results {
			if !has[op.A][x.w] {
				emitW(x)
			}
		}
		r.emit("Noop", map[string]interface{}{"race": op.A, "k": k}, "ok", "", nil)
	case "SetMode":
		err := c.SetReplicaMode(r.node(op.A).addr(), types.Mode(op.Mode))
		res, et := resOf(err)
		r.emit("SetMode", map[string]interface{}{"a": op.A, "mode": op.Mode}, res, et, nil)
	case "MonitorRun":
		addr := r.node(op.A).addr()
		r.g.mu.Lock()
		have := r.g.arrived[addr] > 0
		if have {
			r.g.arrived[addr]--
			r.g.ch(addr) <- struct{}{}
		}
		r.g.mu.Unlock()
		if have {
			select {
			case <-r.g.done:
			case <-time.After(10 * time.Second):
				fmt.Fprintln(os.Stderr, "HARNESS-ERROR: monitor did not finish")
				os.Exit(2)
			}
			time.Sleep(time.Millisecond) // let the deferred unlock run
			c.Lock()
			c.Unlock()
		}
		res := "ok"
		if !have {
			res = "none"
		}
		r.emit("MonitorRun", map[string]interface{}{"a": op.A}, res, "", nil)
	case "Write", "Sync", "Unmap":
		mode := op.Mode
		if mode == "" {
			mode = "err"
		}
		key := strings.ToLower(op.Ev)
		variant := ""
		if mode == "hangreset" && r.ctlState().ReadOnly {
			mode = "drop" // a read-only volume refuses the write before any replica is involved: nothing to hang
		}
		if mode == "hangreset" {
			// the replicas in F stop answering (connection open); once a ping of the controller is
			// outstanding at each of them the write is issued, and 300 ms later their data
			// connections are reset.  For the controller this is a connection that drops during a
			// write (mode "drop"); the write frame was sent but never handed to the replica.
			mode, variant = "drop", "hangreset"
			var hung []*node
			for _, nm := range op.F {
				nd := r.node(nm)
				md := r.members()[nm]
				nd.mu.Lock()
				if len(nd.conns) > 0 && (md == "RW" || md == "WO") {
					nd.hang = make(chan struct{})
					nd.pingPending = false
					hung = append(hung, nd)
				}
				nd.mu.Unlock()
			}
			deadline := time.Now().Add(3500 * time.Millisecond)
			for _, nd := range hung {
				for time.Now().Before(deadline) {
					nd.mu.Lock()
					p := nd.pingPending
					nd.mu.Unlock()
					if p {
						break
					}
					time.Sleep(10 * time.Millisecond)
				}
			}
			if os.Getenv("VERIF_DEBUG") != "" {
				for _, nd := range hung {
					fmt.Fprintln(os.Stderr, "hangreset:", nd.name, "pingPending", nd.pingPending, "waited", time.Until(deadline))
				}
			}
			go func() {
				time.Sleep(300 * time.Millisecond)
				for _, nd := range hung {
					nd.mu.Lock()
					conns := append([]net.Conn{}, nd.conns...)
					h := nd.hang
					nd.hang = nil
					nd.touched["write"]++ // the frame was sent to it
					nd.mu.Unlock()
					for _, cn := range conns {
						cn.Close()
					}
					close(h)
				}
			}()
		}
		r.arm(op.F, key, mode)
		var err error
		var n int
		w := 0
		switch op.Ev {
		case "Write":
			r.nextW++
			w = r.nextW
			buf := make([]byte, rawfs.SectorSize)
			for i := range buf {
				buf[i] = byte(w)
			}
			n, err = c.WriteAt(buf, off(w))
			if err == nil && n != len(buf) {
				err = fmt.Errorf("incomplete write n=%d", n)
			}
		case "Sync":
			// (the iSCSI frontend looks at the error only: a flush is acknowledged iff err == nil)
			n, err = c.Sync()
		case "Unmap":
			// a range no write id ever uses (last sectors)
			n, err = c.Unmap(int64(volBlocks*rawfs.SPB-1)*rawfs.SectorSize, rawfs.SectorSize)
		}
		res, et := resOf(err)
		if err != nil {
			res = "failed"
		}
		td := r.touchedData()
		r.disarm()
		r.afterTransportFault(mode, op.F, td)
		r.emit(op.Ev, map[string]interface{}{"A": strs(op.F), "w": w, "mode": mode, "variant": variant}, res, et,
			map[string]interface{}{"touched": td})
	case "Read":
		mode := op.Mode
		if mode == "" {
			mode = "err"
		}
		r.arm(op.F, "read", mode)
		buf := make([]byte, volBlocks*rawfs.BlockSize)
		n, err := c.ReadAt(buf, 0)
		shortNil := false
		if err == nil && n != len(buf) {
			// "success" without the data: neither served nor reported as failed
			shortNil = true
			err = fmt.Errorf("short read %d", n)
		}
		res, et := resOf(err)
		if err != nil {
			res = "failed"
		}
		out := []int{}
		if err == nil {
			out = project(rawfs.Stamps(buf))
		}
		// which replicas received the read; the armed ones among them failed it
		tried, served := []string{}, ""
		armed := map[string]bool{}
		for _, f := range op.F {
			armed[f] = true
		}
		for _, nm := range r.touchedData() {
			if armed[nm] {
				tried = append(tried, nm)
			} else {
				served = nm
			}
		}
		td := r.touchedData()
		r.disarm()
		r.afterTransportFault(mode, op.F, td)
		r.emit("Read", map[string]interface{}{"A": strs(op.F), "mode": mode}, res, et,
			map[string]interface{}{"touched": td, "T": tried, "served": served, "out": out, "shortnil": shortNil})
	case "Snapshot":
		r.arm(op.F, "rest:snapshot", "err")
		_, err := c.Snapshot(op.Name)
		res, et := resOf(err)
		r.emit("Snapshot", map[string]interface{}{"name": op.Name, "S": strs(op.F)}, res, et, nil)
	case "Revert":
		// Controller.Revert: every RW replica reverts to the snapshot; F = replicas whose call fails
		r.arm(op.F, "rest:revert", "err")
		err := c.Revert(op.Name)
		res, et := resOf(err)
		if err != nil && strings.Contains(et, "Fail to revert") {
			res = "failed"
		}
		r.emit("Revert", map[string]interface{}{"name": op.Name, "F": strs(op.F)}, res, et, nil)
	case "PresetRev":
		// fixture: the replica's history before this controller existed
		buf := make([]byte, 4096)
		copy(buf, []byte(fmt.Sprint(op.Rev)))
		if err := ioutil.WriteFile(filepath.Join(r.node(op.A).dir, "revision.counter"), buf, 0600); err != nil {
			fmt.Fprintln(os.Stderr, "HARNESS-ERROR:", err)
			os.Exit(2)
		}
		r.emit("PresetRev", map[string]interface{}{"a": op.A, "rev": op.Rev}, "ok", "", nil)
	case "ReplicaRestart":
		r.node(op.A).restart()
		time.Sleep(5 * time.Millisecond)
		r.emit("ReplicaRestart", map[string]interface{}{"a": op.A}, "ok", "", nil)
	default:
		fmt.Fprintln(os.Stderr, "HARNESS-ERROR: unknown op", op.Ev)
		os.Exit(2)
	}
}

// a stalled or dropped data connection ends with the rpc client closing it; the
// replica process then closes its volume and restarts: wait for that and record it
func (r *run) afterTransportFault(mode string, armed []string, touched []string) {
	if mode != "stall" && mode != "drop" {
		return
	}
	t := map[string]bool{}
	for _, x := range touched {
		t[x] = true
	}
	for _, nm := range armed {
		if !t[nm] {
			continue
		}
		n := r.node(nm)
		deadline := time.Now().Add(8 * time.Second)
		for {
			st, _ := n.s.Status()
			if st == replica.Closed || time.Now().After(deadline) {
				break
			}
			time.Sleep(5 * time.Millisecond)
		}
		n.restart()
	}
}

// copy the data extents of one file (the sync agent's job, ssync)
func copySparse(src, dst string) error {
	in, err := os.Open(src)
	if err != nil {
		return err
	}
	defer in.Close()
	st, _ := in.Stat()
	os.Remove(dst)
	out, err := os.OpenFile(dst, os.O_CREATE|os.O_RDWR|os.O_TRUNC, 0600)
	if err != nil {
		return err
	}
	defer out.Close()
	if err := out.Truncate(st.Size()); err != nil {
		return err
	}
	data, _, err := rawfs.ReadBlocks(src, 0)
	if err != nil {
		return err
	}
	buf := make([]byte, rawfs.BlockSize)
	for b, blk := range data {
		if len(blk) == 0 {
			continue
		}
		if _, err := in.ReadAt(buf, int64(b)*rawfs.BlockSize); err != nil && err != io.EOF {
			return err
		}
		if _, err := out.WriteAt(buf, int64(b)*rawfs.BlockSize); err != nil {
			return err
		}
	}
	return out.Sync()
}

// what sync.Task.AddReplica does between CreateReplica and VerifyRebuildReplica,
// with the file transfer done in process
func (r *run) rebuildCopy(a, src string) error {
	to, from := r.node(a), r.node(src)
	if st, _ := to.s.Status(); st != replica.Rebuilding {
		if err := to.s.SetRebuilding(true); err != nil {
			return err
		}
	}
	fr := from.s.Replica()
	if fr == nil {
		return fmt.Errorf("source closed")
	}
	chain, err := fr.Chain()
	if err != nil {
		return err
	}
	for i := len(chain) - 1; i >= 1; i-- { // oldest first, without the head
		if err := copySparse(filepath.Join(from.dir, chain[i]), filepath.Join(to.dir, chain[i])); err != nil {
			return err
		}
		b, err := ioutil.ReadFile(filepath.Join(from.dir, chain[i]+".meta"))
		if err != nil {
			return err
		}
		if err := ioutil.WriteFile(filepath.Join(to.dir, chain[i]+".meta"), b, 0600); err != nil {
			return err
		}
	}
	to.s.SetPreload(false)
	err = to.s.Reload()
	to.s.SetPreload(true)
	if err != nil {
		return err
	}
	if err := to.s.Replica().SyncDir(); err != nil {
		return err
	}
	return to.s.UpdateLUNMap()
}

func (r *run) setup() error {
	os.Setenv("REPLICATION_FACTOR", fmt.Sprint(r.sc.RF))
	drv = &drvT{nodes: map[string]*node{}, byIP: map[string]*node{}}
	r.names = nil
	for k := 1; k <= r.sc.N; k++ {
		name := fmt.Sprintf("a%d", k)
		ip := fmt.Sprintf("%s.%d", r.subnet, k+1)
		n, err := newNode(name, ip, filepath.Join(r.work, fmt.Sprintf("s%d-%s", r.sc.ID, name)), volBlocks*rawfs.BlockSize)
		if err != nil {
			return err
		}
		drv.nodes[name] = n
		drv.byIP[ip] = n
		r.names = append(r.names, name)
	}
	r.g = newGate()
	controller.VerifMonitorGate = r.g.gate
	controller.VerifMonitorDone = r.g.doneHook
	r.fe = &stubFrontend{}
	r.fac = &factory{real: dynamic.New(map[string]types.BackendFactory{"tcp": remote.New()}), createFail: map[string]bool{}}
	r.c = controller.NewController(controller.WithName("vol"), controller.WithFrontend(r.fe, ""),
		controller.WithBackend(r.fac), controller.WithRF(r.sc.RF))
	r.seq = 0
	r.nextW = 0
	r.volBlocksNow = volBlocks
	stride = 8
	if r.sc.Dense {
		stride = 1
	}
	r.emit("Init", map[string]interface{}{"rf": r.sc.RF, "n": r.sc.N, "src": r.sc.Src, "dense": r.sc.Dense}, "ok", "", nil)
	return nil
}

func (r *run) teardown() {
	for _, g := range r.gated {
		close(g.release)
		<-g.done
	}
	r.gated = nil
	r.g.mu.Lock()
	r.g.released = true
	for _, c := range r.g.release {
		for i := 0; i < 32; i++ {
			select {
			case c <- struct{}{}:
			default:
			}
		}
	}
	r.g.mu.Unlock()
	time.Sleep(5 * time.Millisecond)
	for _, n := range drv.nodes {
		n.stop()
	}
	for _, n := range drv.nodes {
		os.RemoveAll(n.dir)
	}
}

// ---------------------------------------------------------------- generator
func (r *run) members() map[string]string {
	m := map[string]string{}
	for _, rep := range r.c.ListReplicas() {
		m[r.nameOf(rep.Address)] = string(rep.Mode)
	}
	return m
}

func (r *run) subset(from []string, p float64) []string {
	out := []string{}
	for _, x := range from {
		if r.rng.Float64() < p {
			out = append(out, x)
		}
	}
	return out
}

func (r *run) closedNodes() []string {
	out := []string{}
	m := r.members()
	for _, nm := range r.names {
		st, _ := r.node(nm).s.Status()
		if _, in := m[nm]; !in && st == replica.Closed {
			out = append(out, nm)
		}
	}
	return out
}

func (r *run) pendingMonitors() []string {
	out := []string{}
	r.g.mu.Lock()
	for _, nm := range r.names {
		if r.g.arrived[r.node(nm).addr()] > 0 {
			out = append(out, nm)
		}
	}
	r.g.mu.Unlock()
	return out
}

func (r *run) generate(n int, profile string) {
	rng := r.rng
	steps := 0
	do := func(op Op) { r.exec(op); steps++ }
	faultMode := func() string {
		if rng.Intn(6) == 0 {
			return []string{"stall", "drop"}[rng.Intn(2)]
		}
		return "err"
	}
	snapN := 0
	if profile == "ctlresize" {
		// C16, controller part: grow with every replica RW, with one replica failing its resize,
		// and during a rebuild (before and after the joiner is flagged rebuilding)
		for _, nm := range r.names[:r.sc.RF] {
			do(Op{Ev: "Register", A: nm})
		}
		if !r.c.StartSignalled {
			return
		}
		first := r.nameOf(r.c.MaxRevReplica)
		do(Op{Ev: "Start", A: first})
		do(Op{Ev: "Write"})
		do(Op{Ev: "Resize"})
		var rest []string
		for _, nm := range r.names[:r.sc.RF] {
			if nm != first {
				rest = append(rest, nm)
			}
		}
		for i, nm := range rest {
			do(Op{Ev: "Add", A: nm})
			if rng.Intn(2) == 0 {
				do(Op{Ev: "Resize"}) // joiner WO, not yet flagged rebuilding: grown with the others
			}
			do(Op{Ev: "RebuildCopy", A: nm, Src: first})
			if i == 0 && rng.Intn(3) == 0 {
				do(Op{Ev: "Resize"}) // joiner flagged rebuilding: refuses, is marked ERR
				do(Op{Ev: "MonitorRun", A: nm})
				do(Op{Ev: "ReplicaRestart", A: nm})
				do(Op{Ev: "Add", A: nm})
				do(Op{Ev: "RebuildCopy", A: nm, Src: first})
			}
			do(Op{Ev: "Verify", A: nm})
			do(Op{Ev: "Write"})
		}
		do(Op{Ev: "Resize"})
		if len(rest) > 0 && rng.Intn(2) == 0 {
			do(Op{Ev: "Resize", F: []string{rest[rng.Intn(len(rest))]}})
		}
		do(Op{Ev: "WriteOOB", Kind: "beyond"})
		do(Op{Ev: "Read"})
		do(Op{Ev: "Write"})
		for _, nm := range r.pendingMonitors() {
			do(Op{Ev: "MonitorRun", A: nm})
		}
		do(Op{Ev: "Read"})
		return
	}
	if profile == "oob" {
		// C01, controller part: I/O outside [0, volume size) in every membership the bootstrap
		// passes through (no replica yet, one RW, RW + WO, all RW, read-only)
		kinds := []string{"beyond", "straddle", "negative", "far"}
		probe := func() {
			do(Op{Ev: "WriteOOB", Kind: kinds[rng.Intn(len(kinds))]})
			do(Op{Ev: "ReadOOB", Kind: kinds[rng.Intn(len(kinds))]})
		}
		probe()
		for _, nm := range r.names[:r.sc.RF] {
			do(Op{Ev: "Register", A: nm})
		}
		if !r.c.StartSignalled {
			return
		}
		first := r.nameOf(r.c.MaxRevReplica)
		do(Op{Ev: "Start", A: first})
		do(Op{Ev: "Write"})
		probe()
		for _, nm := range r.names[:r.sc.RF] {
			if nm == first {
				continue
			}
			do(Op{Ev: "Add", A: nm})
			probe()
			do(Op{Ev: "RebuildCopy", A: nm, Src: first})
			do(Op{Ev: "Verify", A: nm})
			do(Op{Ev: "Write"})
		}
		for _, k := range kinds {
			do(Op{Ev: "WriteOOB", Kind: k})
			do(Op{Ev: "ReadOOB", Kind: k})
		}
		do(Op{Ev: "Read"})
		do(Op{Ev: "Write"})
		do(Op{Ev: "Read"})
		return
	}
	if profile == "rebuildrace" {
		// C07: every replica RW, one leaves and comes back through add + rebuild + promotion
		// while the foreground keeps writing -- during the add itself, during the copy,
		// before the verification
		rwNames := func() []string {
			var out []string
			for nm, mode := range r.members() {
				if mode == "RW" {
					out = append(out, nm)
				}
			}
			sort.Strings(out)
			return out
		}
		for _, nm := range r.names[:r.sc.RF] {
			do(Op{Ev: "Register", A: nm})
		}
		if !r.c.StartSignalled {
			do(Op{Ev: "Read"})
			return
		}
		first := r.nameOf(r.c.MaxRevReplica)
		do(Op{Ev: "Start", A: first})
		for _, nm := range r.names[:r.sc.RF] {
			if nm == first {
				continue
			}
			do(Op{Ev: "Add", A: nm})
			do(Op{Ev: "RebuildCopy", A: nm, Src: first})
			do(Op{Ev: "Verify", A: nm})
		}
		do(Op{Ev: "Write"})
		if rng.Intn(2) == 0 {
			snapN++
			do(Op{Ev: "Snapshot", Name: fmt.Sprintf("u%d", snapN)})
			do(Op{Ev: "Write"})
		}
		for cycle := 0; cycle < 2 && r.nextW < volSectors-14; cycle++ {
			rws := rwNames()
			if len(rws) < 2 {
				break
			}
			victim := rws[rng.Intn(len(rws))]
			do(Op{Ev: "Remove", A: victim})
			for _, nm := range r.pendingMonitors() {
				do(Op{Ev: "MonitorRun", A: nm})
			}
			do(Op{Ev: "ReplicaRestart", A: victim})
			for rng.Intn(2) == 0 {
				do(Op{Ev: "Write"})
			}
			if rng.Intn(4) == 0 {
				do(Op{Ev: "Add", A: victim})
			} else {
				do(Op{Ev: "AddRace", A: victim, K: 4 + rng.Intn(5)})
			}
			if r.members()[victim] != "WO" {
				continue
			}
			for rng.Intn(2) == 0 {
				do(Op{Ev: "Write"})
			}
			src := rwNames()
			if len(src) == 0 {
				break
			}
			do(Op{Ev: "RebuildCopy", A: victim, Src: src[rng.Intn(len(src))]})
			for rng.Intn(2) == 0 {
				do(Op{Ev: "Write"})
			}
			do(Op{Ev: "Verify", A: victim})
			do(Op{Ev: "Read"})
			do(Op{Ev: "Write"})
		}
		do(Op{Ev: "Read"})
		return
	}
	if profile == "bootstrap" && rng.Intn(3) == 0 {
		do(Op{Ev: "RegisterQuorum"})
	}
	if profile == "bootstrap" || rng.Intn(4) == 0 {
		for _, nm := range r.names {
			if rng.Intn(3) != 0 {
				do(Op{Ev: "PresetRev", A: nm, Rev: int64(1 + rng.Intn(5))})
			}
		}
	}
	if profile != "bootstrap" && rng.Intn(3) != 0 {
		// fast-forward to a rich membership: bootstrap, then add + rebuild + promote up to a
		// random target, possibly leaving the last one rebuilding (WO)
		for _, i := range rng.Perm(len(r.names)) {
			if r.c.StartSignalled {
				break
			}
			do(Op{Ev: "Register", A: r.names[i]})
		}
		if r.c.StartSignalled {
			do(Op{Ev: "Start", A: r.nameOf(r.c.MaxRevReplica)})
		}
		target := 1 + rng.Intn(r.sc.RF)
		leaveWO := rng.Intn(2) == 0
		for len(r.members()) > 0 && len(r.members()) < target {
			cl := r.closedNodes()
			if len(cl) == 0 {
				break
			}
			a := cl[rng.Intn(len(cl))]
			do(Op{Ev: "Add", A: a})
			if r.members()[a] != "WO" {
				break
			}
			if rng.Intn(3) == 0 {
				do(Op{Ev: "Write"})
			}
			if len(r.members()) == target && leaveWO {
				break
			}
			src := ""
			for nm, mode := range r.members() {
				if mode == "RW" {
					src = nm
				}
			}
			if src == "" {
				break
			}
			do(Op{Ev: "RebuildCopy", A: a, Src: src})
			do(Op{Ev: "Verify", A: a})
		}
		n += steps
	}
	for steps < n {
		m := r.members()
		if len(m) == 0 {
			// bootstrap: registrations in random order, faults, then start
			cl := r.closedNodes()
			if len(cl) == 0 {
				for _, nm := range r.names {
					do(Op{Ev: "ReplicaRestart", A: nm})
					break
				}
				continue
			}
			if r.c.StartSignalled && rng.Intn(3) != 0 {
				who := r.nameOf(r.c.MaxRevReplica)
				if rng.Intn(8) == 0 { // a replica that was not signalled tries to start
					who = r.names[rng.Intn(len(r.names))]
				}
				do(Op{Ev: "Start", A: who, Cf: rng.Intn(12) == 0})
				continue
			}
			a := cl[rng.Intn(len(cl))]
			do(Op{Ev: "Register", A: a, Sf: rng.Intn(7) == 0, Af: rng.Intn(7) == 0})
			continue
		}
		if pm := r.pendingMonitors(); len(pm) > 0 && rng.Intn(3) == 0 {
			do(Op{Ev: "MonitorRun", A: pm[rng.Intn(len(pm))]})
			continue
		}
		all := []string{}
		var wo, rws []string
		for nm, mode := range m {
			all = append(all, nm)
			if mode == "WO" {
				wo = append(wo, nm)
			}
			if mode == "RW" {
				rws = append(rws, nm)
			}
		}
		sort.Strings(all)
		sort.Strings(rws)
		k := rng.Intn(100)
		wW, wR := 30, 48
		if profile == "membership" {
			wW, wR = 15, 25
		}
		if profile == "bootstrap" && rng.Intn(5) == 0 {
			// take the volume down again: detach everybody, restart, re-register
			for _, nm := range all {
				do(Op{Ev: "Remove", A: nm})
			}
			for _, nm := range r.names {
				do(Op{Ev: "ReplicaRestart", A: nm})
			}
			for _, nm := range r.pendingMonitors() {
				do(Op{Ev: "MonitorRun", A: nm})
			}
			continue
		}
		if profile == "snapshot" && rng.Intn(4) == 0 && len(rws) > 0 {
			k = 75
		}
		switch {
		case k < wW:
			kind := "Write"
			if rng.Intn(6) == 0 {
				kind = []string{"Sync", "Unmap"}[rng.Intn(2)]
			}
			if kind == "Write" && r.nextW >= volSectors-2 {
				kind = "Sync"
			}
			p := 0.25
			if rng.Intn(3) == 0 {
				p = 0
			}
			fm := faultMode()
			if kind == "Write" && fm != "err" && profile == "mixed" && rng.Intn(3) == 0 {
				fm = "hangreset" // (2-3 s each: the replica must first be seen hanging by a ping)
			}
			do(Op{Ev: kind, F: r.subset(all, p), Mode: fm})
		case k < wR && rng.Intn(12) == 0:
			do(Op{Ev: []string{"WriteOOB", "ReadOOB"}[rng.Intn(2)], Kind: []string{"beyond", "straddle", "negative", "far"}[rng.Intn(4)]})
		case k < wR:
			p := 0.25
			if rng.Intn(3) == 0 {
				p = 0
			}
			do(Op{Ev: "Read", F: r.subset(all, p), Mode: faultMode()})
		case k < 62 && profile == "membership" && len(r.gated) > 0 && rng.Intn(2) == 0:
			for nm := range r.gated {
				do(Op{Ev: "AddEnd", A: nm})
				break
			}
		case k < 62: // add a replica (possibly one that must be refused)
			cl := r.closedNodes()
			cand := append([]string{}, cl...)
			if rng.Intn(8) == 0 {
				cand = append(cand, all...)
			}
			if len(cand) == 0 {
				for _, nm := range r.names {
					if _, in := m[nm]; !in {
						do(Op{Ev: "ReplicaRestart", A: nm})
						break
					}
				}
				continue
			}
			a := cand[rng.Intn(len(cand))]
			var sf []string
			if rng.Intn(10) == 0 {
				sf = r.subset(append(all, a), 0.4)
			}
			if profile == "membership" && len(r.gated) == 0 && rng.Intn(3) == 0 {
				do(Op{Ev: "AddBegin", A: a})
			} else if _, busy := r.gated[a]; !busy {
				if len(sf) == 0 && len(rws) > 0 && len(wo) == 0 && r.nextW < volSectors-12 && rng.Intn(3) == 0 {
					do(Op{Ev: "AddRace", A: a, K: 3 + rng.Intn(5)}) // foreground writes during the add
				} else {
					do(Op{Ev: "Add", A: a, Cf: rng.Intn(12) == 0, F: sf, Mf: len(sf) == 0 && rng.Intn(8) == 0})
				}
			}
		case k < 74: // rebuild + promote
			if len(wo) > 0 && len(rws) > 0 {
				a := wo[0]
				if rng.Intn(5) != 0 {
					do(Op{Ev: "RebuildCopy", A: a, Src: rws[rng.Intn(len(rws))]})
					for rng.Intn(3) == 0 { // foreground writes while the rebuild runs
						do(Op{Ev: "Write"})
					}
				}
				var f []string
				if rng.Intn(8) == 0 {
					f = r.subset(all, 0.4)
				}
				do(Op{Ev: "Verify", A: a, F: f})
			} else if len(all) > 0 {
				do(Op{Ev: "Verify", A: all[rng.Intn(len(all))]})
			}
		case k < 80 && len(rws) == r.sc.RF && len(wo) == 0 && len(r.gated) == 0 && r.nextW < volSectors-10 &&
			len(r.pendingMonitors()) == 0 && rng.Intn(3) == 0:
			snapN++
			if rng.Intn(3) == 0 {
				do(Op{Ev: "SnapRemove", Name: fmt.Sprintf("u%d", snapN), A: rws[rng.Intn(len(rws))]})
			} else {
				do(Op{Ev: "SnapRace", Name: fmt.Sprintf("u%d", snapN), K: 4 + rng.Intn(4)})
			}
		case k < 80:
			snapN++
			var f []string
			if rng.Intn(6) == 0 || (profile == "snapshot" && rng.Intn(3) == 0) {
				f = r.subset(all, 0.4)
			}
			do(Op{Ev: "Snapshot", Name: fmt.Sprintf("u%d", snapN), F: f})
		case k < 86 && len(rws) > 0 && len(wo) == 0 && len(r.gated) == 0 && r.nextW < volSectors-10 &&
			len(r.pendingMonitors()) == 0 && (rng.Intn(3) == 0 || len(rws) == r.sc.RF/2+1):
			// a removal racing with foreground writes (most interesting when it costs the quorum)
			do(Op{Ev: "Race", A: rws[rng.Intn(len(rws))], K: 4 + rng.Intn(4)})
		case k < 86:
			a := r.names[rng.Intn(len(r.names))]
			do(Op{Ev: "Remove", A: a})
		case k < 90 && len(rws) > 0 && len(r.gated) == 0 && rng.Intn(3) == 0:
			// grow the volume; possibly one replica (never the last RW one) fails its own resize
			var f []string
			if len(rws) > 1 && rng.Intn(3) == 0 {
				f = []string{rws[rng.Intn(len(rws)-1)]}
			}
			do(Op{Ev: "Resize", F: f})
		case k < 90 && snapN > 0 && len(r.gated) == 0 && rng.Intn(2) == 0:
			// the volume is reverted to one of its user snapshots (or to one that does not exist);
			// now and then one replica fails the call
			name := fmt.Sprintf("u%d", 1+rng.Intn(snapN))
			var f []string
			if len(rws) > 1 && rng.Intn(4) == 0 {
				f = []string{rws[rng.Intn(len(rws))]}
			}
			// (a revert that fails on every replica leaves the frontend shut down: outside the
			// model -- only issued when some RW replica that is not failing holds the snapshot)
			holder := false
			for _, nm := range rws {
				if len(f) > 0 && f[0] == nm {
					continue
				}
				for _, sn := range r.nodeState(r.node(nm)).Snaps {
					if sn == name {
						holder = true
					}
				}
			}
			if holder {
				do(Op{Ev: "Revert", Name: name, F: f})
			}
		case k < 90:
			if rng.Intn(5) == 0 {
				// a mode the controller does not accept from outside (or a case variant of one it does)
				do(Op{Ev: "SetMode", A: all[rng.Intn(len(all))], Mode: []string{"err", "rw", "Err", "WO", "wo", ""}[rng.Intn(6)]})
			} else {
				do(Op{Ev: "SetMode", A: all[rng.Intn(len(all))], Mode: "ERR"})
			}
		case k < 95:
			// a detached replica comes back
			for _, nm := range r.names {
				st, _ := r.node(nm).s.Status()
				if _, in := m[nm]; !in && st != replica.Closed {
					do(Op{Ev: "ReplicaRestart", A: nm})
					break
				}
			}
		case k < 98:
			a := r.names[rng.Intn(len(r.names))]
			if _, in := m[a]; !in {
				do(Op{Ev: "Register", A: a})
			}
		default:
			do(Op{Ev: "MonitorRun", A: r.names[rng.Intn(len(r.names))]})
		}
	}
	for nm := range r.gated {
		do(Op{Ev: "AddEnd", A: nm})
	}
	do(Op{Ev: "Read"})
}

// serve mode (harness layer L5): bring the system into a state by a scenario prefix, then
// serve the REAL management router of the controller (or of one replica) together with
// two debug endpoints the fuzzer uses: /verif/trylock and /verif/state.  Runs until killed.
func serve(r *run, what, listen string) {
	mux := http.NewServeMux()
	var inner http.Handler
	var tryLock func() bool
	var state func() interface{}
	if what == "controller" {
		inner = ctlrest.NewRouter(ctlrest.NewServer(r.c))
		tryLock = func() bool {
			if r.c.TryLock() {
				r.c.Unlock()
				return true
			}
			return false
		}
		state = func() interface{} { return r.ctlState() }
	} else {
		n := r.node(what)
		inner = replicarest.NewRouter(replicarest.NewServer(n.s))
		tryLock = func() bool {
			if n.s.TryLock() {
				n.s.Unlock()
				return true
			}
			return false
		}
		state = func() interface{} {
			st, _ := n.s.Status()
			mode := "CLOSED"
			if rep := n.s.Replica(); rep != nil {
				mode = rep.GetReplicaMode()
			}
			return map[string]interface{}{"state": string(st), "mode": mode}
		}
	}
	mux.HandleFunc("/verif/trylock", func(w http.ResponseWriter, req *http.Request) {
		for i := 0; i < 50; i++ { // a handler that is still finishing may hold it briefly
			if tryLock() {
				w.Write([]byte("free"))
				return
			}
			time.Sleep(20 * time.Millisecond)
		}
		http.Error(w, "locked", http.StatusLocked)
	})
	// arm / disarm management-API faults of the in-process replica nodes (fuzzing the
	// controller's handlers on their error paths)
	mux.HandleFunc("/verif/arm", func(w http.ResponseWriter, req *http.Request) {
		q := req.URL.Query()
		if q.Get("node") == "" {
			r.disarm()
		} else {
			r.arm([]string{q.Get("node")}, q.Get("key"), "err")
		}
		w.Write([]byte("ok"))
	})
	mux.HandleFunc("/verif/state", func(w http.ResponseWriter, req *http.Request) {
		b, _ := json.Marshal(state())
		w.Write(b)
	})
	mux.Handle("/", inner)
	fmt.Println("SERVING", listen)
	r.w.Flush()
	err := http.ListenAndServe(listen, mux)
	fmt.Fprintln(os.Stderr, "serve ended:", err)
	os.Exit(2)
}

func main() {
	serveWhat := flag.String("serve", "", "serve the REST router of: controller | a1 | a2 ... after the -in scenario")
	listen := flag.String("listen", "127.0.0.1:9501", "listen address of -serve")
	in := flag.String("in", "", "scenario file (ndjson)")
	gen := flag.Int("gen", 0, "number of scenarios to generate")
	genLen := flag.Int("len", 14, "operations per generated scenario")
	seed := flag.Int64("seed", 1, "generator seed")
	base := flag.Int("base", 0, "first scenario id")
	worker := flag.Int("worker", 1, "worker number (selects the loopback /16)")
	profile := flag.String("profile", "mixed", "generator profile")
	maxRF := flag.Int("maxrf", 3, "largest replication factor generated")
	fixRF := flag.Int("rf", 0, "fixed replication factor (0 = random up to maxrf)")
	out := flag.String("out", "trace.ndjson", "trace output")
	work := flag.String("work", "", "scratch directory")
	flag.Parse()
	logrus.SetOutput(ioutil.Discard)
	logrus.SetLevel(logrus.PanicLevel)
	if *work == "" {
		fmt.Fprintln(os.Stderr, "need -work")
		os.Exit(2)
	}
	types.RPCReadTimeout = rpcTimeout
	types.RPCWriteTimeout = rpcTimeout
	rpc.SetRPCTimeout()
	f, err := os.Create(*out)
	if err != nil {
		fmt.Fprintln(os.Stderr, err)
		os.Exit(2)
	}
	defer f.Close()
	w := bufio.NewWriterSize(f, 1<<20)
	defer w.Flush()
	go replica.CreateHoles()
	go watchdog()
	rng := rand.New(rand.NewSource(*seed))
	var scn int32
	runOne := func(sc Scenario, generate bool) {
		k := atomic.AddInt32(&scn, 1)
		r := &run{t0: time.Now(), sc: sc, w: w, rng: rng, work: *work, subnet: fmt.Sprintf("127.%d.%d", 10+*worker, k%250)}
		curRun = r
		if err := r.setup(); err != nil {
			fmt.Fprintln(os.Stderr, "HARNESS-ERROR: setup:", err)
			os.Exit(2)
		}
		if generate {
			r.generate(*genLen, *profile)
		} else {
			for _, op := range sc.Ops {
				r.exec(op)
			}
		}
		if *serveWhat != "" {
			// monitors are not held back while serving
			r.g.mu.Lock()
			r.g.released = true
			for _, c := range r.g.release {
				for i := 0; i < 32; i++ {
					select {
					case c <- struct{}{}:
					default:
					}
				}
			}
			r.g.mu.Unlock()
			serve(r, *serveWhat, *listen)
		}
		curOp = Op{Ev: "teardown"}
		atomic.StoreInt64(&opDeadline, time.Now().Add(60*time.Second).UnixNano())
		r.teardown()
		atomic.StoreInt64(&opDeadline, 0)
		w.Flush()
	}
	if *in != "" {
		sf, err := os.Open(*in)
		if err != nil {
			fmt.Fprintln(os.Stderr, err)
			os.Exit(2)
		}
		scan := bufio.NewScanner(sf)
		scan.Buffer(make([]byte, 1<<20), 1<<26)
		for scan.Scan() {
			line := strings.TrimSpace(scan.Text())
			if line == "" {
				continue
			}
			var s Scenario
			if err := json.Unmarshal([]byte(line), &s); err != nil {
				fmt.Fprintln(os.Stderr, "HARNESS-ERROR: bad scenario:", err)
				os.Exit(2)
			}
			runOne(s, false)
		}
	}
	for i := 0; i < *gen; i++ {
		rf := 1 + rng.Intn(*maxRF)
		if *fixRF > 0 {
			rf = *fixRF
		}
		runOne(Scenario{ID: *base + i, RF: rf, N: rf + 1, Src: "gen:" + *profile,
			Dense: *profile == "rebuildrace" && rng.Intn(2) == 0}, true)
	}
}
