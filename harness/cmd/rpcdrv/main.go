// rpcdrv (harness layer L4): the real rpc.Client over loopback TCP against a
// scripted peer that speaks the wire format through an INDEPENDENT codec
// (written from the format description, not by calling rpc.Wire).  Several
// callers issue reads / writes / syncs / unmaps / pings concurrently; the peer
// answers the frames it received in a scripted order, with error replies,
// stalls, a closed or a corrupted stream.  All events get a sequence number
// under one mutex; the trace is validated against spec/RpcTrace.tla.
package main

import (
	"bufio"
	"encoding/binary"
	"encoding/json"
	"flag"
	"fmt"
	"io"
	"io/ioutil"
	"math/rand"
	"net"
	"os"
	"sync"
	"time"

	"github.com/openebs/jiva/rpc"
	"github.com/sirupsen/logrus"
)

const (
	magic     = 0x1b03
	tRead     = 0
	tWrite    = 1
	tResponse = 2
	tError    = 3
	tEOF      = 4
	tPing     = 6
	tSync     = 8
	tUnmap    = 9
	deadline  = 600 * time.Millisecond
)

type frame struct {
	Magic  uint16
	Seq    uint32
	Type   uint32
	Offset int64
	Size   int64
	Data   []byte
}

// independent codec: little endian magic(2) seq(4) type(4) offset(8) size(8) len(4) data
func readFrame(r io.Reader) (*frame, error) {
	hdr := make([]byte, 30)
	if _, err := io.ReadFull(r, hdr); err != nil {
		return nil, err
	}
	f := &frame{}
	f.Magic = binary.LittleEndian.Uint16(hdr[0:])
	f.Seq = binary.LittleEndian.Uint32(hdr[2:])
	f.Type = binary.LittleEndian.Uint32(hdr[6:])
	f.Offset = int64(binary.LittleEndian.Uint64(hdr[10:]))
	f.Size = int64(binary.LittleEndian.Uint64(hdr[18:]))
	n := binary.LittleEndian.Uint32(hdr[26:])
	if n > 0 {
		f.Data = make([]byte, n)
		if _, err := io.ReadFull(r, f.Data); err != nil {
			return nil, err
		}
	}
	return f, nil
}

func writeFrame(w io.Writer, f *frame) error {
	hdr := make([]byte, 30)
	binary.LittleEndian.PutUint16(hdr[0:], f.Magic)
	binary.LittleEndian.PutUint32(hdr[2:], f.Seq)
	binary.LittleEndian.PutUint32(hdr[6:], f.Type)
	binary.LittleEndian.PutUint64(hdr[10:], uint64(f.Offset))
	binary.LittleEndian.PutUint64(hdr[18:], uint64(f.Size))
	binary.LittleEndian.PutUint32(hdr[26:], uint32(len(f.Data)))
	if _, err := w.Write(append(hdr, f.Data...)); err != nil {
		return err
	}
	return nil
}

type tracer struct {
	mu    sync.Mutex
	w     *bufio.Writer
	t     int
	seq   int
	start time.Time
}

func (tr *tracer) emit(ev string, m map[string]interface{}) {
	tr.mu.Lock()
	defer tr.mu.Unlock()
	tr.seq++
	m["t"], m["seq"], m["ev"] = tr.t, tr.seq, ev
	m["ts"] = time.Since(tr.start).Milliseconds()
	b, _ := json.Marshal(m)
	tr.w.Write(b)
	tr.w.WriteByte('\n')
}

// stamp of a payload: every byte equal -> that byte, else -1; empty -> 0
func stamp(b []byte) int {
	if len(b) == 0 {
		return 0
	}
	for _, c := range b {
		if c != b[0] {
			return -1
		}
	}
	return int(b[0])
}

type callSpec struct {
	ID   int    `json:"id"`
	Op   string `json:"op"`
	Off  int64  `json:"off"`
	Size int    `json:"size"`
}

type peerRule struct {
	Action string `json:"action"` // "reply" | "error" | "hold" | "stall"
}

type scenario struct {
	ID      int        `json:"id"`
	Callers [][]callSpec `json:"callers"`
	// peer script, by arrival number of the frame (1-based): what to do with it
	Rules   []peerRule `json:"rules"`
	// after how many received frames the stream dies, and how (0 = never)
	DieAt   int    `json:"dieAt"`
	DieHow  string `json:"dieHow"` // "close" | "corrupt"
	Shuffle int64  `json:"shuffle"`
	// Real: the peer is the real rpc.Server in front of a scripted DataProcessor (the replica's side
	// of the connection): it serves one frame at a time, so the rules are reply / error / stall only
	Real bool `json:"real,omitempty"`
}

// scriptDP is the scripted DataProcessor behind the real rpc.Server.  The server hands requests
// over in arrival order and the client numbers its frames from 1, so the arrival number stands for
// the frame's sequence number in the PeerRecv / PeerSend records.
type scriptDP struct {
	sc       *scenario
	tr       *tracer
	arrivals int
	release  chan struct{}
}

func (d *scriptDP) serve(typ int, off, size int64, data []byte, fill []byte) error {
	select {
	case <-d.release: // the execution is over (frames that queued up behind a stalled request)
		return fmt.Errorf("released")
	default:
	}
	d.arrivals++
	n := d.arrivals
	d.tr.emit("PeerRecv", map[string]interface{}{"fseq": n, "type": typ, "off": off, "size": size,
		"dlen": len(data), "stamp": stamp(data), "magic": magic, "n": n})
	rule := peerRule{Action: "reply"}
	if n <= len(d.sc.Rules) {
		rule = d.sc.Rules[n-1]
	}
	switch rule.Action {
	case "error":
		d.tr.emit("PeerSend", map[string]interface{}{"fseq": n, "kind": "error", "stamp": 0})
		return fmt.Errorf("scripted failure")
	case "stall":
		<-d.release
		return fmt.Errorf("released")
	}
	for i := range fill {
		fill[i] = payloadFor(off)
	}
	d.tr.emit("PeerSend", map[string]interface{}{"fseq": n, "kind": "reply", "stamp": stamp(fill)})
	return nil
}
func (d *scriptDP) ReadAt(b []byte, off int64) (int, error) {
	return len(b), d.serve(tRead, off, int64(len(b)), nil, b)
}
func (d *scriptDP) WriteAt(b []byte, off int64) (int, error) {
	return len(b), d.serve(tWrite, off, int64(len(b)), b, nil)
}
func (d *scriptDP) Sync() (int, error) { return 0, d.serve(tSync, 0, 0, nil, nil) }
func (d *scriptDP) Unmap(off, length int64) (int, error) {
	return 0, d.serve(tUnmap, off, length, nil, nil)
}
func (d *scriptDP) PingResponse() error { return d.serve(tPing, 0, 0, nil, nil) }
func (d *scriptDP) Close() error        { return nil }

func payloadFor(off int64) byte { return byte(1 + (off/512)%250) }

func runScenario(sc scenario, tr *tracer) {
	tr.t = sc.ID
	tr.seq = 0
	tr.start = time.Now()
	ncalls := 0
	for _, c := range sc.Callers {
		ncalls += len(c)
	}
	tr.emit("Init", map[string]interface{}{"ncalls": ncalls})
	l, err := net.Listen("tcp", "127.0.0.1:0")
	if err != nil {
		fmt.Fprintln(os.Stderr, "HARNESS-ERROR:", err)
		os.Exit(2)
	}
	defer l.Close()
	rng := rand.New(rand.NewSource(sc.Shuffle))
	peerDone := make(chan struct{})
	release := make(chan struct{})
	go func() {
		defer close(peerDone)
		conn, err := l.Accept()
		if err != nil {
			return
		}
		defer conn.Close()
		if sc.Real {
			dp := &scriptDP{sc: &sc, tr: tr, release: release}
			rpc.NewServer(conn, dp).Handle()
			return
		}
		var wmu sync.Mutex
		held := []*frame{}
		arrivals := 0
		reply := func(f *frame, kind string) {
			r := &frame{Magic: magic, Seq: f.Seq, Type: tResponse, Offset: f.Offset}
			if kind == "error" {
				r.Type = tError
				r.Data = []byte("scripted failure")
				r.Size = int64(len(r.Data))
			} else if f.Type == tRead {
				r.Data = make([]byte, f.Size)
				for i := range r.Data {
					r.Data[i] = payloadFor(f.Offset)
				}
				r.Size = f.Size
			} else {
				r.Size = f.Size
			}
			tr.emit("PeerSend", map[string]interface{}{"fseq": f.Seq, "kind": kind, "stamp": stamp(r.Data)})
			wmu.Lock()
			writeFrame(conn, r)
			wmu.Unlock()
		}
		flush := func() {
			rng.Shuffle(len(held), func(i, j int) { held[i], held[j] = held[j], held[i] })
			for _, h := range held {
				reply(h, "reply")
			}
			held = nil
		}
		for {
			conn.SetReadDeadline(time.Now().Add(150 * time.Millisecond))
			f, err := readFrame(conn)
			if err != nil {
				if ne, ok := err.(net.Error); ok && ne.Timeout() {
					// quiet period: answer what was held back (in shuffled order)
					flush()
					select {
					case <-peerDone:
					default:
					}
					continue
				}
				return
			}
			arrivals++
			tr.emit("PeerRecv", map[string]interface{}{"fseq": f.Seq, "type": f.Type, "off": f.Offset,
				"size": f.Size, "dlen": len(f.Data), "stamp": stamp(f.Data), "magic": f.Magic, "n": arrivals})
			rule := peerRule{Action: "reply"}
			if arrivals <= len(sc.Rules) {
				rule = sc.Rules[arrivals-1]
			}
			switch rule.Action {
			case "reply":
				reply(f, "reply")
			case "error":
				reply(f, "error")
			case "hold":
				held = append(held, f)
			case "stall":
			}
			if sc.DieAt > 0 && arrivals == sc.DieAt {
				tr.emit("PeerDies", map[string]interface{}{"how": sc.DieHow})
				if sc.DieHow == "corrupt" {
					wmu.Lock()
					conn.Write([]byte{0xde, 0xad, 0xbe, 0xef, 0, 0, 0, 0, 0, 0, 0, 0, 0, 0, 0, 0, 0, 0, 0, 0, 0, 0, 0, 0, 0, 0, 0, 0, 0, 0})
					wmu.Unlock()
					// keep reading so that the client's writes do not fail first
					io.Copy(ioutil.Discard, conn)
				}
				return
			}
		}
	}()
	conn, err := net.Dial("tcp", l.Addr().String())
	if err != nil {
		fmt.Fprintln(os.Stderr, "HARNESS-ERROR:", err)
		os.Exit(2)
	}
	closeChan := make(chan struct{}, 5)
	client := rpc.NewClient(conn, closeChan)
	var wg sync.WaitGroup
	// pings and syncs carry no argument that could tell two of them apart on the
	// wire: at most one of each is outstanding at a time
	var pingMu, syncMu sync.Mutex
	for _, calls := range sc.Callers {
		wg.Add(1)
		go func(calls []callSpec) {
			defer wg.Done()
			for _, c := range calls {
				if c.Op == "ping" {
					pingMu.Lock()
				} else if c.Op == "sync" {
					syncMu.Lock()
				}
				tr.emit("Call", map[string]interface{}{"id": c.ID, "op": c.Op, "off": c.Off, "size": c.Size,
					"stamp": int(payloadFor(c.Off))})
				start := time.Now()
				var n int
				var err error
				got := 0
				switch c.Op {
				case "read":
					buf := make([]byte, c.Size)
					n, err = client.ReadAt(buf, c.Off)
					if err == nil {
						got = stamp(buf)
					}
				case "write":
					buf := make([]byte, c.Size)
					for i := range buf {
						buf[i] = payloadFor(c.Off)
					}
					n, err = client.WriteAt(buf, c.Off)
				case "sync":
					n, err = client.Sync()
				case "unmap":
					n, err = client.Unmap(c.Off, int64(c.Size))
				case "ping":
					err = client.Ping()
				}
				class, et := "ok", ""
				if err != nil {
					et = err.Error()
					switch {
					case err == rpc.ErrRWTimeout || err == rpc.ErrPingTimeout:
						class = "timeout"
					case et == "scripted failure":
						class = "rerr"
					default:
						class = "terr"
					}
				}
				tr.emit("Return", map[string]interface{}{"id": c.ID, "op": c.Op, "n": n, "class": class, "err": et,
					"got": got, "ms": time.Since(start).Milliseconds()})
				if c.Op == "ping" {
					pingMu.Unlock()
				} else if c.Op == "sync" {
					syncMu.Unlock()
				}
			}
		}(calls)
	}
	waitc := make(chan struct{})
	go func() { wg.Wait(); close(waitc) }()
	select {
	case <-waitc:
	case <-time.After(20 * time.Second):
		// a call never returned: the property's "never hangs"
		tr.emit("Hang", map[string]interface{}{})
		tr.w.Flush()
		fmt.Fprintln(os.Stderr, "HANG: a call did not return, scenario", sc.ID)
		os.Exit(3)
	}
	// was the failure reported?
	tokens := 0
	deadlineT := time.After(300 * time.Millisecond)
loop:
	for {
		select {
		case <-closeChan:
			tokens++
		case <-deadlineT:
			break loop
		}
	}
	tr.emit("End", map[string]interface{}{"notified": tokens})
	close(release)
	conn.Close()
	<-peerDone
}

func genScenario(id int, rng *rand.Rand) scenario {
	sc := scenario{ID: id, Shuffle: rng.Int63()}
	ncallers := 1 + rng.Intn(4)
	ops := []string{"read", "write", "read", "write", "sync", "unmap", "ping"}
	sizes := []int{512, 4096, 512, 1024, 65536}
	cid := 0
	for i := 0; i < ncallers; i++ {
		var calls []callSpec
		for j := 0; j < 1+rng.Intn(3); j++ {
			cid++
			op := ops[rng.Intn(len(ops))]
			c := callSpec{ID: cid, Op: op, Off: int64(cid) * 512, Size: sizes[rng.Intn(len(sizes))]}
			if op == "sync" || op == "ping" {
				c.Size = 0
				c.Off = 0
			}
			if rng.Intn(12) == 0 {
				c.Off = int64(1)<<62 + int64(cid)*512
			}
			calls = append(calls, c)
		}
		sc.Callers = append(sc.Callers, calls)
	}
	for i := 0; i < cid; i++ {
		a := "reply"
		switch k := rng.Intn(20); {
		case k < 8:
			a = "hold"
		case k < 10:
			a = "error"
		case k == 10:
			a = "stall"
		}
		sc.Rules = append(sc.Rules, peerRule{Action: a})
	}
	if rng.Intn(4) == 0 {
		// the replica's half: the real rpc.Server (sequential; no held replies, no scripted death)
		sc.Real = true
		for i := range sc.Rules {
			if sc.Rules[i].Action == "hold" {
				sc.Rules[i].Action = []string{"reply", "reply", "error"}[rng.Intn(3)]
			}
		}
		return sc
	}
	if rng.Intn(3) == 0 {
		sc.DieAt = 1 + rng.Intn(cid)
		sc.DieHow = []string{"close", "corrupt"}[rng.Intn(2)]
	}
	return sc
}

func main() {
	gen := flag.Int("gen", 0, "scenarios to generate")
	seed := flag.Int64("seed", 1, "seed")
	base := flag.Int("base", 0, "first id")
	in := flag.String("in", "", "scenario file")
	out := flag.String("out", "trace.ndjson", "output")
	flag.Parse()
	logrus.SetOutput(ioutil.Discard)
	logrus.SetLevel(logrus.PanicLevel)
	rpc.VerifSetTimeouts(deadline, deadline, deadline, deadline, deadline)
	f, err := os.Create(*out)
	if err != nil {
		fmt.Fprintln(os.Stderr, err)
		os.Exit(2)
	}
	defer f.Close()
	w := bufio.NewWriterSize(f, 1<<20)
	defer w.Flush()
	tr := &tracer{w: w}
	if *in != "" {
		b, err := ioutil.ReadFile(*in)
		if err != nil {
			fmt.Fprintln(os.Stderr, err)
			os.Exit(2)
		}
		dec := json.NewDecoder(bufio.NewReader(bytesReader(b)))
		for {
			var sc scenario
			if err := dec.Decode(&sc); err != nil {
				break
			}
			runScenario(sc, tr)
		}
	}
	rng := rand.New(rand.NewSource(*seed))
	for i := 0; i < *gen; i++ {
		sc := genScenario(*base+i, rng)
		b, _ := json.Marshal(sc)
		tr.t = sc.ID
		tr.seq = -1
		tr.emit("Scenario", map[string]interface{}{"scenario": json.RawMessage(b)})
		runScenario(sc, tr)
	}
}

type br struct {
	b []byte
	i int
}

func (r *br) Read(p []byte) (int, error) {
	if r.i >= len(r.b) {
		return 0, io.EOF
	}
	n := copy(p, r.b[r.i:])
	r.i += n
	return n, nil
}
func bytesReader(b []byte) io.Reader { return &br{b: b} }
