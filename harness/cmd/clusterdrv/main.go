// clusterdrv (harness layer L2): the controller runs in this process (so the
// driver can call WriteAt/ReadAt the way the iSCSI frontend does and can observe the
// promotion hook under the controller lock), its REAL REST router listens on
// <ctlIP>:9501, and the replicas are REAL `jiva replica` child processes (binary
// built from /repo) with their own sync-agent children; the rebuild is the real
// sync.Task.AddReplica / ssync.  kill -9 of a process group is a genuine crash.
// A second in-process controller plus a `--type clone` replica process cover C19.
package main

import (
	"bufio"
	"bytes"
	"encoding/json"
	"flag"
	"fmt"
	"io/ioutil"
	"math/rand"
	"net"
	"net/http"
	"net/http/httputil"
	"net/url"
	"os"
	"os/exec"
	"path/filepath"
	"sort"
	"strings"
	"sync"
	"sync/atomic"
	"syscall"
	"time"

	"github.com/openebs/jiva/backend/dynamic"
	"github.com/openebs/jiva/backend/remote"
	"github.com/openebs/jiva/controller"
	ctlrest "github.com/openebs/jiva/controller/rest"
	"github.com/openebs/jiva/types"
	"github.com/sirupsen/logrus"

	"verifharness/rawfs"
)

const (
	volBlocks  = 16
	volSectors = volBlocks * rawfs.SPB
)

type stubFrontend struct{ up bool }

func (f *stubFrontend) Startup(name, frontendIP, clusterIP string, size, sectorSize int64, rw types.IOs) error {
	f.up = true
	return nil
}
func (f *stubFrontend) Shutdown() error { f.up = false; return nil }
func (f *stubFrontend) State() types.State {
	if f.up {
		return types.StateUp
	}
	return types.StateDown
}
func (f *stubFrontend) Stats() types.Stats  { return types.Stats{} }
func (f *stubFrontend) Resize(uint64) error { return nil }

type Op struct {
	Ev   string `json:"ev"`
	A    string `json:"a,omitempty"`
	N    int    `json:"n,omitempty"`
	Ms   int    `json:"ms,omitempty"`
	K    int    `json:"k,omitempty"` // FailSend: requests let through first
	Name string `json:"name,omitempty"`
}

type Scenario struct {
	ID      int    `json:"id"`
	RF      int    `json:"rf"`
	Kind    string `json:"kind"` // "rebuild" | "clone"
	Aligned bool   `json:"aligned"` // every write covers one whole 4 KiB block (no read-modify-write)
	Ops     []Op   `json:"ops"`
}

type proc struct {
	name, ip, dir string
	cmd           *exec.Cmd
	args          []string
	syncArgs      []string
	failSend      int32 // the next failSend "send this file" requests to this replica's sync agent are refused (503) ...
	skipSend      int32 // ... after skipSend of them have been let through (the first one of a rebuild carries the head's metadata)
	proxy         *http.Server
	env           []string // extra environment of the replica process
	log           *os.File
	wantUp        bool
	mu            sync.Mutex
}

type cluster struct {
	c      *controller.Controller
	fe     *stubFrontend
	ip     string
	srv    *http.Server
	procs  map[string]*proc
	order  []string
	jiva   string
	work   string
	preEnv map[string][]string // extra environment for replica processes spawned later, by name
	restDown int32             // != 0: the controller's REST endpoint answers 503
	extra    []*exec.Cmd       // sync agents restarted on their own (SpawnSync)
}

type run struct {
	sc     Scenario
	main   *cluster
	clone  *cluster
	w      *bufio.Writer
	mu     sync.Mutex
	seq    int
	nextW  int
	acked  []int
	rng    *rand.Rand
}

func (r *run) emit(ev string, m map[string]interface{}) {
	r.mu.Lock()
	defer r.mu.Unlock()
	r.seq++
	m["t"], m["seq"], m["ev"] = r.sc.ID, r.seq, ev
	if _, ok := m["ctl"]; !ok {
		m["ctl"] = r.modes(r.main)
	}
	b, err := json.Marshal(m)
	if err != nil {
		panic(err)
	}
	r.w.Write(b)
	r.w.WriteByte('\n')
	r.w.Flush()
}

func (r *run) nameOf(cl *cluster, addr string) string {
	for nm, p := range cl.procs {
		if "tcp://"+p.ip+":9502" == addr {
			return nm
		}
	}
	return "?" + addr
}

func (r *run) modes(cl *cluster) map[string]interface{} {
	reps := map[string]string{}
	for _, rep := range cl.c.ListReplicas() {
		reps[r.nameOf(cl, rep.Address)] = string(rep.Mode)
	}
	cp := strings.TrimSuffix(strings.TrimPrefix(cl.c.Checkpoint, "volume-snap-"), ".img")
	return map[string]interface{}{"replicas": reps, "readOnly": cl.c.ReadOnly, "rwCount": cl.c.RWReplicaCount, "checkpoint": cp}
}

func newCluster(ip, jiva, work string, rf int) (*cluster, error) {
	if abs, err := filepath.Abs(jiva); err == nil {
		jiva = abs // the start script changes directory
	}
	cl := &cluster{ip: ip, jiva: jiva, work: work, procs: map[string]*proc{}, fe: &stubFrontend{}}
	fac := dynamic.New(map[string]types.BackendFactory{"tcp": remote.New()})
	cl.c = controller.NewController(controller.WithName("vol"), controller.WithFrontend(cl.fe, ""),
		controller.WithBackend(fac), controller.WithRF(rf))
	l, err := net.Listen("tcp", ip+":9501")
	if err != nil {
		return nil, err
	}
	inner := ctlrest.NewRouter(ctlrest.NewServer(cl.c))
	// (the controller's management endpoint can be made unreachable for a while: 503 to everybody)
	cl.srv = &http.Server{Handler: http.HandlerFunc(func(w http.ResponseWriter, req *http.Request) {
		if atomic.LoadInt32(&cl.restDown) != 0 {
			http.Error(w, "controller endpoint down", http.StatusServiceUnavailable)
			return
		}
		inner.ServeHTTP(w, req)
	})}
	go cl.srv.Serve(l)
	return cl, nil
}

// a distinct block of receiver ports for every replica of every cluster of every worker
var (
	portBase  int // set from the worker number
	portCount int
)

func portSlot() int {
	portCount++
	return portBase + portCount%40
}

func (cl *cluster) spawn(name, ip string, extra ...string) error {
	p := cl.procs[name]
	if p == nil {
		p = &proc{name: name, ip: ip, dir: filepath.Join(cl.work, name), env: cl.preEnv[name]}
		cl.procs[name] = p
		cl.order = append(cl.order, name)
		// The replica's own sync agent always hands out ssync receiver ports from 9700-9800 and
		// the receivers listen on the wildcard address: fine for one replica per pod, cross-talk
		// (one cluster's file landing in another's directory) when several clusters share this
		// host's port space.  So the replica runs with --sync-agent=false and the harness starts
		// the same `jiva sync-agent` next to it, in the replica's directory and process group,
		// with a port range of its own.
		p.args = append([]string{"replica", "--frontendIP", cl.ip, "--listen", ip + ":9502", "--size", fmt.Sprint(volBlocks * rawfs.BlockSize),
			"--logtofile=false", "--sync-agent=false"}, extra...)
		p.args = append(p.args, p.dir)
		slot := portSlot()
		cl.startSyncProxy(p)
		p.syncArgs = []string{"sync-agent", "--listen", ip + ":9514", "--listen-port-range",
			fmt.Sprintf("%d-%d", 20000+slot*12, 20000+slot*12+11)}
	}
	p.mu.Lock()
	defer p.mu.Unlock()
	if p.cmd != nil {
		return fmt.Errorf("%s already running", name)
	}
	p.wantUp = true
	return cl.startLocked(p)
}

// startLocked starts the process; when it exits on its own (the replica gives up with a
// fatal error when its add is refused, and relies on its supervisor) it is restarted,
// the way the orchestrator restarts a replica pod
func (cl *cluster) startLocked(p *proc) error {
	name := p.name
	lf, err := os.OpenFile(filepath.Join(cl.work, name+".log"), os.O_CREATE|os.O_APPEND|os.O_WRONLY, 0600)
	if err != nil {
		return err
	}
	p.log = lf
	if err := os.MkdirAll(p.dir, 0700); err != nil {
		return err
	}
	// sh: sync agent in the background (cwd = replica directory), then exec the replica so that
	// the child's pid is the replica's and one kill of the process group takes everything
	quote := func(args []string) string {
		q := ""
		for _, a := range args {
			q += " '" + strings.ReplaceAll(a, "'", "'\\''") + "'"
		}
		return q
	}
	script := "cd '" + p.dir + "' && '" + cl.jiva + "'" + quote(p.syncArgs) + " & exec '" + cl.jiva + "'" + quote(p.args)
	cmd := exec.Command("/bin/sh", "-c", script)
	cmd.Stdout, cmd.Stderr = lf, lf
	cmd.SysProcAttr = &syscall.SysProcAttr{Setpgid: true}
	cmd.Env = append(os.Environ(), "REPLICATION_FACTOR="+os.Getenv("REPLICATION_FACTOR"))
	cmd.Env = append(cmd.Env, p.env...)
	if err := cmd.Start(); err != nil {
		return err
	}
	p.cmd = cmd
	go func() {
		cmd.Wait()
		// the replica is gone: its sync agent goes with it (Pdeathsig in the original set-up)
		syscall.Kill(-cmd.Process.Pid, syscall.SIGKILL)
		time.Sleep(500 * time.Millisecond)
		p.mu.Lock()
		defer p.mu.Unlock()
		if p.wantUp && p.cmd == cmd {
			p.cmd = nil
			cl.startLocked(p)
		}
	}()
	return nil
}

// The replica's sync agent listens on <ip>:9514; everybody talks to it through this reverse proxy on
// the well-known <ip>:9504, which can refuse "send file" requests (POST /v1/processes, type sync):
// a file transfer of a rebuild / clone that fails while everything else keeps working.
func (cl *cluster) startSyncProxy(p *proc) {
	target, _ := url.Parse("http://" + p.ip + ":9514")
	rp := httputil.NewSingleHostReverseProxy(target)
	h := http.HandlerFunc(func(w http.ResponseWriter, req *http.Request) {
		if req.Method == "POST" && strings.HasSuffix(req.URL.Path, "/processes") {
			body, _ := ioutil.ReadAll(req.Body)
			req.Body = ioutil.NopCloser(bytes.NewReader(body))
			var pr struct {
				ProcessType string `json:"processType"`
			}
			json.Unmarshal(body, &pr)
			if pr.ProcessType == "sync" && atomic.LoadInt32(&p.failSend) > 0 && atomic.AddInt32(&p.skipSend, -1) < 0 {
				for {
					n := atomic.LoadInt32(&p.failSend)
					if n <= 0 {
						break
					}
					if atomic.CompareAndSwapInt32(&p.failSend, n, n-1) {
						http.Error(w, "injected: sync agent refuses to send the file", http.StatusServiceUnavailable)
						return
					}
				}
			}
		}
		rp.ServeHTTP(w, req)
	})
	l, err := net.Listen("tcp", p.ip+":9504")
	if err != nil {
		fmt.Fprintln(os.Stderr, "HARNESS-ERROR: sync proxy:", err)
		os.Exit(2)
	}
	p.proxy = &http.Server{Handler: h}
	go p.proxy.Serve(l)
}

// freshSyncPorts gives the next incarnation of a replica's sync agent its own receiver ports
func (cl *cluster) freshSyncPorts(name string) {
	p := cl.procs[name]
	if p == nil {
		return
	}
	p.mu.Lock()
	defer p.mu.Unlock()
	slot := portSlot()
	p.syncArgs = []string{"sync-agent", "--listen", p.ip + ":9514", "--listen-port-range",
		fmt.Sprintf("%d-%d", 20000+slot*12, 20000+slot*12+11)}
}

func (cl *cluster) kill(name string) {
	p := cl.procs[name]
	if p == nil {
		return
	}
	p.mu.Lock()
	defer p.mu.Unlock()
	p.wantUp = false
	if p.cmd == nil {
		return
	}
	syscall.Kill(-p.cmd.Process.Pid, syscall.SIGKILL)
	// the sync agent and its ssync children are in the same process group
	time.Sleep(20 * time.Millisecond)
	p.cmd = nil
	if p.log != nil {
		p.log.Close()
	}
}

func (cl *cluster) stop() {
	for _, p := range cl.procs {
		if p.proxy != nil {
			p.proxy.Close()
		}
	}
	for _, c := range cl.extra {
		if c.Process != nil {
			syscall.Kill(-c.Process.Pid, syscall.SIGKILL)
		}
	}
	for _, p := range cl.procs {
		p.mu.Lock()
		p.wantUp = false
		if p.cmd != nil {
			syscall.Kill(-p.cmd.Process.Pid, syscall.SIGKILL)
			p.cmd = nil
		}
		p.mu.Unlock()
	}
	cl.srv.Close()
}

func (r *run) waitRW(cl *cluster, n int, timeout time.Duration) bool {
	deadline := time.Now().Add(timeout)
	for time.Now().Before(deadline) {
		k := 0
		for _, rep := range cl.c.ListReplicas() {
			if rep.Mode == types.RW {
				k++
			}
		}
		if k >= n {
			return true
		}
		time.Sleep(50 * time.Millisecond)
	}
	return false
}

func idsIn(img []int) []int {
	out := []int{}
	for s, v := range img {
		if v != 0 && v == s+1 {
			out = append(out, v)
		}
	}
	return out
}

func imageOf(d *rawfs.Dir, top string) []int {
	img := make([]int, volSectors)
	path := []string{}
	for cur := top; cur != ""; {
		f, ok := d.Files[cur]
		if !ok {
			break
		}
		path = append([]string{cur}, path...)
		cur = f.Parent
	}
	for _, nm := range path {
		f := d.Files[nm]
		for b := 0; b < volBlocks && b < len(f.Data); b++ {
			if len(f.Data[b]) == rawfs.SPB {
				copy(img[b*rawfs.SPB:], f.Data[b])
			}
		}
	}
	return img
}

func chainOf(d *rawfs.Dir) []string { // head .. base
	out := []string{}
	for cur := d.Head; cur != ""; {
		f, ok := d.Files[cur]
		if !ok {
			break
		}
		out = append(out, cur)
		cur = f.Parent
	}
	return out
}

type dirView struct {
	OK     bool             `json:"ok"`
	Chain  []string         `json:"chain"`
	Live   []int            `json:"live"`
	Snaps  map[string][]int `json:"snaps"`
	User   map[string]bool  `json:"user"`
	Rev    int64            `json:"rev"`
	CP     string           `json:"cp"`
	Reb    bool             `json:"rebuilding"`
	Clone  string           `json:"clone"`
}

func view(dir string) dirView {
	v := dirView{Chain: []string{}, Live: []int{}, Snaps: map[string][]int{}, User: map[string]bool{}}
	d, err := rawfs.Scan(dir)
	if err != nil || !d.MetaOK {
		return v
	}
	v.OK = true
	v.Chain = chainOf(d)
	v.Live = imageOf(d, d.Head)
	for _, nm := range v.Chain[1:] {
		v.Snaps[nm] = imageOf(d, nm)
		v.User[nm] = d.Files[nm].User
	}
	v.Rev, v.CP, v.Reb, v.Clone = d.Rev, d.Checkpoint, d.Rebuilding, d.CloneStat
	return v
}

// promotion hook: controller lock held, I/O paused
func (r *run) promoted(address, source string) {
	cl := r.main
	t, s := r.nameOf(cl, address), r.nameOf(cl, source)
	tp, sp := cl.procs[t], cl.procs[s]
	if tp == nil || sp == nil {
		return
	}
	tv, sv := view(tp.dir), view(sp.dir)
	acked := append([]int{}, r.acked...)
	r.emit("Promoted", map[string]interface{}{"target": t, "source": s, "tv": tv, "sv": sv, "acked": acked,
		"ctl": map[string]interface{}{"note": "under controller lock"}})
}

func (r *run) write(cl *cluster) {
	r.nextW++
	w := r.nextW
	limit, unit := volSectors, rawfs.SectorSize
	if r.sc.Aligned {
		limit, unit = volBlocks, rawfs.BlockSize
	}
	if w > limit {
		return
	}
	buf := make([]byte, unit)
	for i := range buf {
		buf[i] = byte(w)
	}
	n, err := cl.c.WriteAt(buf, int64(w-1)*int64(unit))
	res := "ok"
	if err != nil || n != len(buf) {
		res = "failed"
	} else {
		r.mu.Lock()
		r.acked = append(r.acked, w)
		r.mu.Unlock()
	}
	et := ""
	if err != nil {
		et = err.Error()
	}
	r.emit("Write", map[string]interface{}{"w": w, "res": res, "err": et})
}

func (r *run) read(cl *cluster, ev string) {
	buf := make([]byte, volSectors*rawfs.SectorSize)
	n, err := cl.c.ReadAt(buf, 0)
	res, out := "ok", []int{}
	if err != nil || n != len(buf) {
		res = "failed"
	} else {
		out = rawfs.Stamps(buf)
	}
	r.mu.Lock()
	acked := append([]int{}, r.acked...)
	r.mu.Unlock()
	r.emit(ev, map[string]interface{}{"res": res, "out": out, "acked": acked, "ctl": r.modes(cl)})
}

func (r *run) exec(op Op) {
	cl := r.main
	switch op.Ev {
	case "Write":
		for i := 0; i < max(1, op.N); i++ {
			r.write(cl)
		}
	case "Read":
		r.read(cl, "Read")
	case "Snapshot":
		_, err := cl.c.Snapshot(op.Name)
		res := "ok"
		if err != nil {
			res = "refused"
		}
		r.emit("Snapshot", map[string]interface{}{"name": op.Name, "res": res})
	case "Kill":
		cl.kill(op.A)
		r.emit("Kill", map[string]interface{}{"a": op.A})
	case "Spawn":
		p := cl.procs[op.A]
		ip := ""
		if p != nil {
			ip = p.ip
		}
		err := cl.spawn(op.A, ip)
		res := "ok"
		if err != nil {
			res = "failed"
		}
		r.emit("Spawn", map[string]interface{}{"a": op.A, "res": res})
	case "WaitRW":
		ok := r.waitRW(cl, op.N, time.Duration(op.Ms)*time.Millisecond)
		r.emit("WaitRW", map[string]interface{}{"n": op.N, "ok": ok})
	case "FailSend":
		// the next op.N file transfers asked of replica op.A's sync agent are refused (0 clears)
		if p := cl.procs[op.A]; p != nil {
			atomic.StoreInt32(&p.skipSend, int32(op.K))
			atomic.StoreInt32(&p.failSend, int32(op.N))
		}
		r.emit("Sample", map[string]interface{}{"failsend": op.A, "n": op.N})
	case "KillSync":
		// only the replica's sync agent dies (the process that sends / receives snapshot files);
		// the replica itself stays in service
		if p := cl.procs[op.A]; p != nil {
			exec.Command("pkill", "-KILL", "-f", "sync-agent --listen "+p.ip+":9514").Run()
		}
		r.emit("Sample", map[string]interface{}{"killsync": op.A})
	case "SpawnSync":
		if p := cl.procs[op.A]; p != nil {
			cmd := exec.Command(cl.jiva, p.syncArgs...)
			cmd.Dir = p.dir
			cmd.SysProcAttr = &syscall.SysProcAttr{Setpgid: true}
			if lf, err := os.OpenFile(filepath.Join(cl.work, p.name+".log"), os.O_CREATE|os.O_APPEND|os.O_WRONLY, 0600); err == nil {
				cmd.Stdout, cmd.Stderr = lf, lf
			}
			if cmd.Start() == nil {
				cl.extra = append(cl.extra, cmd)
				go cmd.Wait()
			}
		}
		r.emit("Sample", map[string]interface{}{"spawnsync": op.A})
	case "WaitMode":
		// until the controller lists replica op.A with mode op.Name (e.g. "WO": just added, the
		// transfer of its rebuild has not finished yet)
		want := ""
		if p := cl.procs[op.A]; p != nil {
			want = "tcp://" + p.ip + ":9502"
		}
		ok := false
		deadline := time.Now().Add(time.Duration(op.Ms) * time.Millisecond)
		for !ok && time.Now().Before(deadline) {
			for _, rep := range cl.c.ListReplicas() {
				if rep.Address == want && string(rep.Mode) == op.Name {
					ok = true
				}
			}
			if !ok {
				time.Sleep(5 * time.Millisecond)
			}
		}
		r.emit("Sample", map[string]interface{}{"waitmode": op.A, "mode": op.Name, "ok": ok})
	case "Sleep":
		time.Sleep(time.Duration(op.Ms) * time.Millisecond)
		r.emit("Sample", map[string]interface{}{})
	case "Final":
		// quiescent end state: every RW replica's directory
		views := map[string]dirView{}
		for nm, p := range cl.procs {
			views[nm] = view(p.dir)
		}
		r.mu.Lock()
		acked := append([]int{}, r.acked...)
		r.mu.Unlock()
		r.emit("Final", map[string]interface{}{"views": views, "acked": acked})
	}
}

func max(a, b int) int {
	if a > b {
		return a
	}
	return b
}

func (r *run) genRebuild() []Op {
	rng := r.rng
	rf := r.sc.RF
	ops := []Op{{Ev: "WaitRW", N: rf, Ms: 60000}, {Ev: "Write", N: 2 + rng.Intn(3)}}
	if rng.Intn(2) == 0 {
		ops = append(ops, Op{Ev: "Snapshot", Name: "u1"}, Op{Ev: "Write", N: 1 + rng.Intn(2)})
	}
	victim := fmt.Sprintf("a%d", 1+rng.Intn(rf))
	ops = append(ops, Op{Ev: "Kill", A: victim}, Op{Ev: "Write", N: 1 + rng.Intn(3)})
	if rng.Intn(3) == 0 {
		ops = append(ops, Op{Ev: "Snapshot", Name: "u2"})
	}
	ops = append(ops, Op{Ev: "Spawn", A: victim})
	// foreground writes while the rebuild runs, possibly another kill in the middle
	for i := 0; i < 3+rng.Intn(4); i++ {
		ops = append(ops, Op{Ev: "Sleep", Ms: 100 + rng.Intn(700)}, Op{Ev: "Write", N: 1})
	}
	switch rng.Intn(4) {
	case 0: // the rebuilding replica dies in the middle and comes back
		ops = append(ops, Op{Ev: "Kill", A: victim}, Op{Ev: "Write", N: 1}, Op{Ev: "Spawn", A: victim})
	case 1: // the source (another replica) dies during the rebuild
		other := fmt.Sprintf("a%d", 1+rng.Intn(rf))
		if other != victim && rf > 2 {
			ops = append(ops, Op{Ev: "Kill", A: other}, Op{Ev: "Write", N: 1}, Op{Ev: "Spawn", A: other})
		}
	}
	ops = append(ops, Op{Ev: "WaitRW", N: rf, Ms: 90000}, Op{Ev: "Write", N: 1}, Op{Ev: "Read"}, Op{Ev: "Sleep", Ms: 300}, Op{Ev: "Final"})
	return ops
}

func main() {
	jiva := flag.String("jiva", "", "path of the jiva binary built from /repo")
	work := flag.String("work", "", "scratch dir")
	out := flag.String("out", "trace.ndjson", "output")
	worker := flag.Int("worker", 1, "worker number (loopback /16)")
	gen := flag.Int("gen", 0, "scenarios to generate")
	seed := flag.Int64("seed", 1, "seed")
	base := flag.Int("base", 0, "first id")
	kind := flag.String("kind", "rebuild", "rebuild | clone")
	in := flag.String("in", "", "scenario file (json lines)")
	flag.Parse()
	logrus.SetOutput(ioutil.Discard)
	logrus.SetLevel(logrus.PanicLevel)
	f, err := os.Create(*out)
	if err != nil {
		fmt.Fprintln(os.Stderr, err)
		os.Exit(2)
	}
	defer f.Close()
	w := bufio.NewWriterSize(f, 1<<20)
	defer w.Flush()
	rng := rand.New(rand.NewSource(*seed))
	var scs []Scenario
	if *in != "" {
		b, _ := ioutil.ReadFile(*in)
		for _, line := range strings.Split(string(b), "\n") {
			if strings.TrimSpace(line) == "" {
				continue
			}
			var sc Scenario
			if err := json.Unmarshal([]byte(line), &sc); err != nil {
				fmt.Fprintln(os.Stderr, "HARNESS-ERROR: bad scenario", err)
				os.Exit(2)
			}
			scs = append(scs, sc)
		}
	}
	for i := 0; i < *gen; i++ {
		rf := 2 + rng.Intn(2)
		if *kind == "clone" {
			rf = 1
		}
		scs = append(scs, Scenario{ID: *base + i, RF: rf, Kind: *kind, Aligned: (*base+i)%2 == 0})
	}
	for k, sc := range scs {
		os.Setenv("REPLICATION_FACTOR", fmt.Sprint(sc.RF))
		portBase = *worker * 40
		subnet := fmt.Sprintf("127.%d.%d", 100+*worker, (k+1)%250)
		wd := filepath.Join(*work, fmt.Sprintf("s%d", sc.ID))
		os.MkdirAll(wd, 0700)
		r := &run{sc: sc, w: w, rng: rng}
		cl, err := newCluster(subnet+".1", *jiva, wd, sc.RF)
		if err != nil {
			fmt.Fprintln(os.Stderr, "HARNESS-ERROR:", err)
			os.Exit(2)
		}
		r.main = cl
		controller.VerifPromoted = r.promoted
		r.emit("Init", map[string]interface{}{"rf": sc.RF, "kind": sc.Kind, "aligned": sc.Aligned})
		for i := 1; i <= sc.RF; i++ {
			if err := cl.spawn(fmt.Sprintf("a%d", i), fmt.Sprintf("%s.%d", subnet, i+1)); err != nil {
				fmt.Fprintln(os.Stderr, "HARNESS-ERROR: spawn:", err)
				os.Exit(2)
			}
		}
		if sc.Kind == "clone" {
			r.runClone(subnet, wd)
		} else {
			ops := sc.Ops
			if len(ops) == 0 {
				ops = r.genRebuild()
			}
			for _, op := range ops {
				r.exec(op)
			}
		}
		controller.VerifPromoted = nil
		cl.stop()
		if r.clone != nil {
			r.clone.stop()
		}
		time.Sleep(50 * time.Millisecond)
		if os.Getenv("VERIF_KEEP") == "" {
			os.RemoveAll(wd)
		}
	}
	_ = sort.Strings
}

// C19: a second volume whose only replica is started as a clone of snapshot S of the first
func (r *run) runClone(subnet, wd string) {
	cl := r.main
	rng := r.rng
	if !r.waitRW(cl, 1, 60*time.Second) {
		r.emit("WaitRW", map[string]interface{}{"n": 1, "ok": false})
		return
	}
	r.emit("WaitRW", map[string]interface{}{"n": 1, "ok": true})
	for i := 0; i < 2+rng.Intn(3); i++ {
		r.write(cl)
	}
	snaps := []string{}
	nsn := 1 + rng.Intn(3)
	failVariant := r.sc.ID%4 == 2
	if failVariant && nsn < 2 {
		nsn = 2 // the failing-reload variant needs a snapshot below S (chain limit >= 2 to start at all)
	}
	for i := 0; i < nsn; i++ {
		name := fmt.Sprintf("c%d", i+1)
		_, err := cl.c.Snapshot(name)
		res := "ok"
		if err != nil {
			res = "refused"
		} else {
			snaps = append(snaps, name)
		}
		r.emit("Snapshot", map[string]interface{}{"name": name, "res": res})
		for j := 0; j < 1+rng.Intn(2); j++ {
			r.write(cl)
		}
	}
	if len(snaps) == 0 {
		return
	}
	S := snaps[rng.Intn(len(snaps))]
	if failVariant {
		S = snaps[len(snaps)-1]
	}
	// image of S at the source, by the raw reader
	src := view(cl.procs["a1"].dir)
	// the new volume
	cwd := filepath.Join(wd, "clone")
	os.MkdirAll(cwd, 0700)
	c2, err := newCluster(subnet+".101", r.main.jiva, cwd, 1)
	if err != nil {
		fmt.Fprintln(os.Stderr, "HARNESS-ERROR:", err)
		os.Exit(2)
	}
	r.clone = c2
	// scenario id decides the variant: undisturbed / clone process killed in the middle / reload fails
	interrupt := r.sc.ID%4 == 1
	// the source volume's controller is unreachable when the clone starts and for 7 s after:
	// the clone has to wait for it, and must not be served while it waits
	sourceLate := r.sc.ID%4 == 3
	if sourceLate {
		atomic.StoreInt32(&cl.restDown, 1)
		go func() {
			time.Sleep(7 * time.Second)
			atomic.StoreInt32(&cl.restDown, 0)
		}()
	}
	// a clone that cannot complete: the clone replica's chain limit is one short of what the
	// cloned chain (snapshots up to S + head) needs, so its reload after the transfer fails.
	// It must end as an error and never be served.
	failReload := failVariant
	if failReload {
		idx := 0
		for i, n := range snaps {
			if n == S {
				idx = i
			}
		}
		// the source chain below S also holds the automatic snapshots of the bootstrap; count them
		depth := 0
		for i, n := range src.Chain { // head .. base
			if n == "s-"+S {
				depth = len(src.Chain) - i
			}
		}
		_ = idx
		c2.preEnv = map[string][]string{"k1": {fmt.Sprintf("MAX_CHAIN_LENGTH=%d", depth)}}
	}
	if err := c2.spawn("k1", subnet+".102", "--type", "clone", "--cloneIP", cl.ip, "--snapName", S); err != nil {
		fmt.Fprintln(os.Stderr, "HARNESS-ERROR: spawn clone:", err)
		os.Exit(2)
	}
	r.emit("CloneSpawn", map[string]interface{}{"snap": S, "srcsnap": src.Snaps["s-"+S], "srcchain": src.Chain, "interrupt": interrupt,
		"failreload": failReload, "sourcelate": sourceLate})
	// sample clone status / modes until it is RW (or time is up); writes go on at the source
	deadline := time.Now().Add(60 * time.Second)
	errSeen := false
	killed := false
	samples := 0
	for time.Now().Before(deadline) {
		v := view(c2.procs["k1"].dir)
		m := r.modes(c2)
		r.emit("CloneSample", map[string]interface{}{"status": v.Clone, "ok": v.OK, "rebuilding": v.Reb, "cctl": m})
		if v.Clone == "error" && !errSeen {
			// a failed clone: three more polls of the new volume's controller (2 s each) must not serve it
			errSeen = true
			deadline = time.Now().Add(20 * time.Second)
		}
		if interrupt && !killed && v.Clone == "inProgress" {
			c2.kill("k1")
			killed = true
			r.emit("CloneKill", map[string]interface{}{})
			// the node stays down long enough for the new volume's controller to notice (it polls
			// the clone status every 2 s and drops the replica when the poll fails) and for the
			// source's interrupted ssync sender to give up (7 s of retries); the restarted sync
			// agent gets a receiver port range of its own
			time.Sleep(9 * time.Second)
			c2.freshSyncPorts("k1")
			c2.spawn("k1", subnet+".102")
			deadline = time.Now().Add(60 * time.Second)
			continue
		}
		if reps, _ := m["replicas"].(map[string]string); reps["k1"] == "RW" {
			break
		}
		if rng.Intn(4) == 0 {
			r.write(cl)
		}
		samples++
		if samples > 60 {
			time.Sleep(600 * time.Millisecond)
		}
		time.Sleep(150 * time.Millisecond)
	}
	// final observation: read the new volume through its controller, raw view of the clone
	out := []int{}
	res := "skipped"
	if reps, _ := r.modes(c2)["replicas"].(map[string]string); reps["k1"] == "RW" {
		// (the new controller holds its lock while it polls the clone status: only read once it serves)
		buf := make([]byte, volSectors*rawfs.SectorSize)
		n, rerr := c2.c.ReadAt(buf, 0)
		res = "ok"
		if rerr != nil || n != len(buf) {
			res = "failed"
		} else {
			out = rawfs.Stamps(buf)
		}
	}
	srcv := view(cl.procs["a1"].dir)
	cv := view(c2.procs["k1"].dir)
	srcrev := int64(-1)
	if b, err := ioutil.ReadFile(filepath.Join(cl.procs["a1"].dir, "volume-snap-"+S+".img.meta")); err == nil {
		var dm struct{ RevisionCounter int64 }
		if json.Unmarshal(b, &dm) == nil {
			srcrev = dm.RevisionCounter
		}
	}
	// the chain as the clone replica's engine sees it (its management API), next to the raw view
	echain := []string{}
	if resp, herr := (&http.Client{Timeout: 3 * time.Second}).Get("http://" + subnet + ".102:9502/v1/replicas/1"); herr == nil {
		var rep struct {
			Chain []string `json:"chain"`
		}
		if json.NewDecoder(resp.Body).Decode(&rep) == nil {
			for _, n := range rep.Chain {
				echain = append(echain, rawfs.Norm(n))
			}
		}
		resp.Body.Close()
	}
	r.emit("CloneFinal", map[string]interface{}{"snap": S, "res": res, "out": out, "srcsnap": srcv.Snaps["s-"+S], "echain": echain,
		"cv": cv, "srcrev": srcrev, "cctl": r.modes(c2), "killed": killed})
}
