// replicadrv (harness layer L0): executes scenarios against one real
// replica.Server on a temporary directory and records one ndjson event per
// specification action, with the projected state taken by the independent raw
// reader.  The trace is validated by TLC against spec/ReplicaTrace.tla.
//
// Scenarios come either from a file (-in, one JSON scenario per line, e.g.
// produced from TLC simulation) or from the built-in seeded generator (-gen).
package main

import (
	"bufio"
	"encoding/json"
	"flag"
	"fmt"
	"io/ioutil"
	"math/rand"
	"net"
	"net/http"
	"os"
	"path/filepath"
	"sort"
	"strconv"
	"strings"
	"sync"
	"sync/atomic"
	"syscall"
	"time"

	"github.com/openebs/jiva/replica"
	replicaClient "github.com/openebs/jiva/replica/client"
	jsync "github.com/openebs/jiva/sync"
	"github.com/openebs/jiva/types"
	"github.com/openebs/sparse-tools/sparse"
	"github.com/sirupsen/logrus"

	"verifharness/rawfs"
)

type Op struct {
	Ev   string `json:"ev"`
	S0   int64  `json:"s0,omitempty"`
	N    int64  `json:"n,omitempty"`
	V    int    `json:"v,omitempty"`
	Name string `json:"name,omitempty"`
	User bool   `json:"user,omitempty"`
	Bare bool   `json:"bare,omitempty"`
	NB   int64  `json:"nb,omitempty"`
	B0   int64  `json:"b0,omitempty"`   // WriteStride: first block
	Step int64  `json:"step,omitempty"` // WriteStride: distance between the blocks
	P    bool   `json:"p,omitempty"`
	Mode string `json:"mode,omitempty"`
	R    bool   `json:"r,omitempty"`
	C    int64  `json:"c,omitempty"`
	Flow string `json:"flow,omitempty"` // generator bookkeeping only
	// SyncFile: the healthy replica's version of snapshot Name
	Parent  string `json:"parent,omitempty"`
	Removed bool   `json:"removed,omitempty"`
	Blocks  []int  `json:"blocks,omitempty"` // per block: 0 = hole, else the stamp of all its sectors
	// ReplaceDisk
	Target string `json:"target,omitempty"`
	Source string `json:"source,omitempty"`
}

type Scenario struct {
	ID    int    `json:"id"`
	NB    int64  `json:"nb"`
	Punch bool   `json:"punch"`
	Src   string `json:"src,omitempty"`
	Ops   []Op   `json:"ops"`
}

type EngDisk struct {
	Parent  string `json:"parent"`
	User    bool   `json:"user"`
	Removed bool   `json:"removed"`
}

type State struct {
	Open       bool               `json:"open"`
	Status     string             `json:"status"`
	Mode       string             `json:"mode"`
	Size       int64              `json:"size"`
	Chain      []string           `json:"chain"` // base .. head, engine view
	Eng        map[string]EngDisk `json:"eng"`
	RevCache   int64              `json:"revcache"`
	EDirty     bool               `json:"edirty"`
	ERebuild   bool               `json:"erebuilding"`
	ECP        string             `json:"ecp"`
	EParent    string             `json:"eparent"` // Info.Parent: the engine's cached parent of the head
	Punch      bool               `json:"punch"`
	Dir        *rawfs.Dir         `json:"dir"`
	HolesQueue int                `json:"-"`
}

type Event struct {
	T    int                    `json:"t"`
	Seq  int                    `json:"seq"`
	Ev   string                 `json:"ev"`
	A    map[string]interface{} `json:"a"`
	Res  string                 `json:"res"`
	Err  string                 `json:"err"`
	Out  []int                  `json:"out"`
	Cand []string               `json:"cand"`
	Partial bool                `json:"partial"`
	X    map[string]interface{} `json:"x"`
	St   interface{}            `json:"st"`
}

type foldOps struct{}

func (foldOps) UpdateFoldFileProgress(progress int, done bool, err error) {}

// watchdog: a call into the engine that does not return within the limit is
// recorded as a "Hang" event; the process exits with status 3 (the recorded
// prefix is still validated)
var opDeadline int64 // unix nanos, 0 = idle

type drv struct {
	s    *replica.Server
	dir  string
	w    *bufio.Writer
	t    int
	seq  int
	rng  *rand.Rand
	nw   int
	snapCtr int
	curOp Op
	gone  []string
	lmGate chan struct{}
	lmDone chan error
	plan   map[string]string // snapshot -> coalesce target of the plan PrepareRemoveDisk returned for it
}

// syncFile writes the image and the metadata of one snapshot the way the sync agent's
// receiver does and returns the per-block projection of what was written.
func (d *drv) syncFile(op Op) ([][]int, error) {
	nb := d.size()
	path := filepath.Join(d.dir, rawfs.Real(op.Name))
	f, err := os.OpenFile(path, os.O_RDWR|os.O_CREATE, 0666)
	if err != nil {
		return nil, err
	}
	defer f.Close()
	if err := f.Truncate(nb * rawfs.BlockSize); err != nil {
		return nil, err
	}
	data := make([][]int, nb)
	for b := int64(0); b < nb; b++ {
		v := 0
		if int(b) < len(op.Blocks) {
			v = op.Blocks[b]
		}
		if v == 0 {
			data[b] = []int{}
			if err := syscall.Fallocate(int(f.Fd()), sparse.FALLOC_FL_KEEP_SIZE|sparse.FALLOC_FL_PUNCH_HOLE,
				b*rawfs.BlockSize, rawfs.BlockSize); err != nil {
				return nil, err
			}
			continue
		}
		if _, err := f.WriteAt(fill(rawfs.SPB, v), b*rawfs.BlockSize); err != nil {
			return nil, err
		}
		data[b] = make([]int, rawfs.SPB)
		for i := range data[b] {
			data[b][i] = v
		}
	}
	if err := f.Sync(); err != nil {
		return nil, err
	}
	meta := map[string]interface{}{"Name": rawfs.Real(op.Name), "Parent": rawfs.Real(op.Parent), "Removed": op.Removed,
		"UserCreated": op.User, "Created": now(), "RevisionCounter": 0}
	if op.Parent == "" {
		meta["Parent"] = ""
	}
	b, _ := json.Marshal(meta)
	tmp := path + ".meta.tmp"
	if err := ioutil.WriteFile(tmp, append(b, '\n'), 0666); err != nil {
		return nil, err
	}
	return data, os.Rename(tmp, path+".meta")
}

// quiesce waits until every queued punch has been executed: a sentinel is
// queued behind them and the puncher consumes requests strictly in order.
func quiesce() {
	replica.HoleCreatorChan <- replica.Hole{}
	for i := 0; len(replica.HoleCreatorChan) != 0; i++ {
		if i > 200000 {
			fmt.Fprintln(os.Stderr, "HARNESS-ERROR: hole queue does not drain")
			os.Exit(2)
		}
		time.Sleep(50 * time.Microsecond)
	}
	// the sentinel has been received, i.e. every earlier fallocate returned
	time.Sleep(100 * time.Microsecond)
}

func (d *drv) project() *State {
	quiesce()
	st := &State{Mode: "CLOSED", Chain: []string{}, Eng: map[string]EngDisk{}, Punch: types.ShouldPunchHoles}
	state, _ := d.s.Status()
	st.Status = string(state)
	if r := d.s.Replica(); r != nil {
		st.Open = true
		st.Mode = r.GetReplicaMode()
		info := r.Info()
		st.Size = info.Size / rawfs.BlockSize
		st.EDirty = info.Dirty
		st.ERebuild = info.Rebuilding
		st.ECP = rawfs.Norm(info.Checkpoint)
		st.EParent = rawfs.Norm(info.Parent)
		ch, err := r.Chain()
		if err == nil {
			for i := len(ch) - 1; i >= 0; i-- {
				st.Chain = append(st.Chain, rawfs.Norm(ch[i]))
			}
		} else {
			st.Chain = []string{"!broken"}
		}
		for n, di := range r.ListDisks() {
			st.Eng[rawfs.Norm(n)] = EngDisk{Parent: rawfs.Norm(di.Parent), User: di.UserCreated, Removed: di.Removed}
		}
		st.RevCache = r.GetRevisionCounter()
	}
	dir, err := rawfs.Scan(d.dir)
	if err != nil {
		fmt.Fprintln(os.Stderr, "HARNESS-ERROR: raw scan:", err)
		os.Exit(2)
	}
	st.Dir = dir
	if !st.Open {
		st.Size = dir.SizeBlocks
	}
	return st
}

func (d *drv) emit(ev string, a map[string]interface{}, err error, out []int, cand []string) {
	d.emitX(ev, a, err, out, cand, false, nil)
}

// emitX: partial = the record is one of several concurrent calls; no state projection
// is attached (the burst's closing record carries it)
func (d *drv) emitX(ev string, a map[string]interface{}, err error, out []int, cand []string, partial bool, extra map[string]interface{}) {
	d.seq++
	e := Event{T: d.t, Seq: d.seq, Ev: ev, A: a, Res: "ok", Out: out, Cand: cand, Partial: partial, X: extra}
	if e.X == nil {
		e.X = map[string]interface{}{}
	}
	if !partial {
		e.St = d.project()
	} else {
		e.St = map[string]interface{}{"chain": []string{}, "mode": ""}
	}
	if e.Out == nil {
		e.Out = []int{}
	}
	if e.Cand == nil {
		e.Cand = []string{}
	}
	if e.A == nil {
		e.A = map[string]interface{}{}
	}
	if err != nil {
		e.Res = "refused"
		e.Err = err.Error()
	}
	b, jerr := json.Marshal(e)
	if jerr != nil {
		panic(jerr)
	}
	d.w.Write(b)
	d.w.WriteByte('\n')
}

func fill(n int64, v int) []byte {
	buf := make([]byte, n*rawfs.SectorSize)
	for i := range buf {
		buf[i] = byte(v)
	}
	return buf
}

func now() string { return time.Now().UTC().Format(time.RFC3339) }

func (d *drv) start(sc Scenario) error {
	d.t = sc.ID
	d.seq = 0
	d.nw = 0
	os.RemoveAll(d.dir)
	if err := os.MkdirAll(d.dir, 0700); err != nil {
		return err
	}
	types.ShouldPunchHoles = sc.Punch
	types.MaxChainLength = 0
	d.s = replica.NewServer("127.0.0.1:9502", d.dir, 512, "Backend")
	if err := d.s.Create(sc.NB * rawfs.BlockSize); err != nil {
		return err
	}
	if err := d.s.Open(); err != nil {
		return err
	}
	if err := d.s.SetReplicaMode("RW"); err != nil {
		return err
	}
	d.emit("Init", map[string]interface{}{"nb": sc.NB, "punch": sc.Punch, "src": sc.Src}, nil, nil, nil)
	return nil
}

func (d *drv) exec(op Op) {
	atomic.StoreInt64(&opDeadline, time.Now().Add(40*time.Second).UnixNano())
	d.curOp = op
	defer atomic.StoreInt64(&opDeadline, 0)
	d.exec1(op)
}

func (d *drv) watchdog() {
	for {
		time.Sleep(500 * time.Millisecond)
		dl := atomic.LoadInt64(&opDeadline)
		if dl != 0 && time.Now().UnixNano() > dl {
			b, _ := json.Marshal(map[string]interface{}{"t": d.t, "seq": d.seq + 1, "ev": "Hang",
				"a": map[string]interface{}{"op": d.curOp.Ev, "name": d.curOp.Name}, "res": "hang", "err": "call did not return in 40s",
				"out": []int{}, "cand": []string{}, "st": map[string]interface{}{"chain": []string{}, "mode": ""}})
			d.w.Write(b)
			d.w.WriteByte('\n')
			d.w.Flush()
			fmt.Fprintln(os.Stderr, "HANG in", d.curOp.Ev, "scenario", d.t)
			os.Exit(3)
		}
	}
}

func (d *drv) exec1(op Op) {
	s := d.s
	switch op.Ev {
	case "Write":
		// the engine returns the block-rounded count for a single partial block;
		// success is err == nil (what the RPC server relays)
		_, err := s.WriteAt(fill(op.N, op.V), op.S0*rawfs.SectorSize)
		d.emit("Write", map[string]interface{}{"s0": op.S0, "n": op.N, "v": op.V}, err, nil, nil)
	case "WriteStride":
		// op.N aligned whole-block writes at blocks B0, B0+Step, ...: one record (files with
		// thousands of extents without thousands of records)
		var err error
		for i := int64(0); i < op.N && err == nil; i++ {
			_, err = s.WriteAt(fill(rawfs.SPB, op.V), (op.B0+i*op.Step)*rawfs.BlockSize)
		}
		d.emit("WriteStride", map[string]interface{}{"b0": op.B0, "step": op.Step, "count": op.N, "v": op.V}, err, nil, nil)
	case "Read":
		buf := make([]byte, op.N*rawfs.SectorSize)
		n, err := s.ReadAt(buf, op.S0*rawfs.SectorSize)
		if err == nil && int64(n) != op.N*rawfs.SectorSize {
			err = fmt.Errorf("short read %d", n)
		}
		var out []int
		if err == nil {
			out = rawfs.Stamps(buf)
		}
		d.emit("Read", map[string]interface{}{"s0": op.S0, "n": op.N}, err, out, nil)
	case "Snapshot":
		err := s.Snapshot(op.Name, op.User, now())
		d.emit("Snapshot", map[string]interface{}{"name": op.Name, "user": op.User}, err, nil, nil)
	case "PrepareRemove":
		arg := rawfs.Real(op.Name)
		if op.Bare {
			arg = strings.TrimPrefix(op.Name, "s-")
		}
		acts, err := s.PrepareRemoveDisk(arg)
		// the plan the callers (cleaner, controller) carry out: coalesce <source> into <target>, remove <source>
		plan := [][]string{}
		if d.plan == nil {
			d.plan = map[string]string{}
		}
		for _, a := range acts {
			plan = append(plan, []string{a.Action, rawfs.Norm(a.Source), rawfs.Norm(a.Target)})
			if a.Action == replica.OpCoalesce && err == nil {
				d.plan[rawfs.Norm(a.Source)] = a.Target
			}
		}
		d.emitX("PrepareRemove", map[string]interface{}{"name": op.Name, "bare": op.Bare}, err, nil, nil, false,
			map[string]interface{}{"plan": plan})
	case "CleanerPick":
		// what sync.Task.InternalSnapshotCleaner does in one round, minus the timer
		var cand []string
		var err error
		cp := ""
		if r := s.Replica(); r != nil {
			cp = r.Info().Checkpoint
			var c []string
			c, err = jsync.GetDeleteCandidateChain(r, cp)
			for _, x := range c {
				cand = append(cand, rawfs.Norm(x))
			}
		} else {
			err = fmt.Errorf("closed")
		}
		d.emit("CleanerPick", map[string]interface{}{"cp": rawfs.Norm(cp)}, err, nil, cand)
	case "Coalesce":
		// sfold <child> <parent>, out of process in production
		var err error
		child := rawfs.Real(op.Name)
		parent := ""
		if r := s.Replica(); r != nil {
			if di, ok := r.ListDisks()[child]; ok {
				parent = di.Parent
			}
		}
		if t, ok := d.plan[op.Name]; ok && t != "" {
			parent = t // the target named by the plan of PrepareRemoveDisk, as the production callers use it
		}
		if parent == "" {
			err = fmt.Errorf("no parent for %s", child)
		} else {
			err = sparse.FoldFile(filepath.Join(d.dir, child), filepath.Join(d.dir, parent), foldOps{})
		}
		d.emit("Coalesce", map[string]interface{}{"name": op.Name}, err, nil, nil)
	case "RemoveDisk":
		err := s.RemoveDiffDisk(rawfs.Real(op.Name))
		d.emit("RemoveDisk", map[string]interface{}{"name": op.Name}, err, nil, nil)
	case "Revert":
		err := s.Revert(rawfs.Real(op.Name), now())
		d.emit("Revert", map[string]interface{}{"name": op.Name}, err, nil, nil)
	case "Resize":
		err := s.Resize(strconv.FormatInt(op.NB*rawfs.BlockSize, 10))
		d.emit("Resize", map[string]interface{}{"nb": op.NB}, err, nil, nil)
	case "Close":
		err := s.Close()
		d.emit("Close", nil, err, nil, nil)
	case "Open":
		err := s.Open()
		d.emit("Open", nil, err, nil, nil)
	case "Reload":
		err := s.Reload()
		d.emit("Reload", nil, err, nil, nil)
	case "Burst":
		// op.N concurrent writers, each writing its own sector range once per round, while a
		// poller reads the revision counter the way the REST info handler does
		type wr struct{ s0, n int64; v int }
		var ws []wr
		ns := d.size() * rawfs.SPB
		k := int64(op.N)
		if k > ns {
			k = ns
		}
		rounds := 6
		for r := 0; r < rounds; r++ {
			for g := int64(0); g < k; g++ {
				d.nw++
				ws = append(ws, wr{g * (ns / k), 1, 1 + (d.nw-1)%250})
			}
		}
		errs := make([]error, len(ws))
		stop := make(chan struct{})
		backwards := 0
		var pwg sync.WaitGroup
		pwg.Add(1)
		go func() {
			defer pwg.Done()
			last := int64(-1)
			for {
				select {
				case <-stop:
					return
				default:
				}
				if r := s.Replica(); r != nil {
					c := r.GetRevisionCounter()
					if c < last {
						backwards++
					}
					last = c
				}
			}
		}()
		var wg sync.WaitGroup
		for g := int64(0); g < k; g++ {
			wg.Add(1)
			go func(g int64) {
				defer wg.Done()
				for r := 0; r < rounds; r++ {
					i := r*int(k) + int(g)
					_, errs[i] = s.WriteAt(fill(ws[i].n, ws[i].v), ws[i].s0*rawfs.SectorSize)
				}
			}(g)
		}
		wg.Wait()
		close(stop)
		pwg.Wait()
		// per-sector order is the program order of its writer: log writer by writer
		for g := int64(0); g < k; g++ {
			for r := 0; r < rounds; r++ {
				i := r*int(k) + int(g)
				d.emitX("Write", map[string]interface{}{"s0": ws[i].s0, "n": ws[i].n, "v": ws[i].v}, errs[i], nil, nil, true, nil)
			}
		}
		d.emitX("BurstEnd", map[string]interface{}{"writers": k, "rounds": rounds}, nil, nil, nil, false,
			map[string]interface{}{"backwards": backwards})
	case "OpenRace":
		// two open requests arrive while a reader holds the server lock
		s.RLock()
		res := make(chan error, 2)
		for i := 0; i < 2; i++ {
			go func() { res <- s.Open() }()
		}
		time.Sleep(30 * time.Millisecond)
		s.RUnlock()
		oks := 0
		var last error
		for i := 0; i < 2; i++ {
			if err := <-res; err == nil {
				oks++
			} else {
				last = err
			}
		}
		var err error
		if oks == 0 {
			err = last
		}
		d.emitX("Open", nil, err, nil, nil, false, map[string]interface{}{"oks": oks})
	case "Unmap":
		_, err := s.Unmap(op.S0*rawfs.SectorSize, op.N*rawfs.SectorSize)
		d.emit("Unmap", map[string]interface{}{"s0": op.S0, "n": op.N}, err, nil, nil)
	case "SyncFile":
		// what the ssync receiver does for one snapshot of the healthy replica: image in
		// place (create / truncate to size, data and holes), metadata through tmp + rename
		data, err := d.syncFile(op)
		d.emit("SyncFile", map[string]interface{}{"name": op.Name, "parent": op.Parent, "user": op.User,
			"removed": op.Removed, "data": data}, err, nil, nil)
		if err != nil {
			fmt.Fprintln(os.Stderr, "HARNESS-ERROR: SyncFile:", err)
			os.Exit(2)
		}
	case "UpdateLUNMap":
		err := s.UpdateLUNMap()
		d.emit("UpdateLUNMap", nil, err, nil, nil)
	case "LunMapScan":
		// UpdateLUNMap up to the gate between its two locked sections
		if d.lmDone != nil {
			fmt.Fprintln(os.Stderr, "HARNESS-ERROR: LunMapScan while one is pending")
			os.Exit(2)
		}
		d.lmGate = make(chan struct{})
		reached := make(chan struct{})
		d.lmDone = make(chan error, 1)
		gate := d.lmGate
		replica.VerifLunMapGate = func() {
			replica.VerifLunMapGate = nil
			close(reached)
			<-gate
		}
		go func(done chan error) { done <- s.UpdateLUNMap() }(d.lmDone)
		var err error
		select {
		case <-reached:
		case err = <-d.lmDone: // refused before the gate
			replica.VerifLunMapGate = nil
			d.lmDone = nil
			if err == nil {
				fmt.Fprintln(os.Stderr, "HARNESS-ERROR: UpdateLUNMap returned without passing the gate")
				os.Exit(2)
			}
		}
		d.emit("LunMapScan", nil, err, nil, nil)
	case "LunMapMerge":
		if d.lmDone == nil {
			fmt.Fprintln(os.Stderr, "HARNESS-ERROR: LunMapMerge without LunMapScan")
			os.Exit(2)
		}
		close(d.lmGate)
		err := <-d.lmDone
		d.lmDone = nil
		d.emit("LunMapMerge", nil, err, nil, nil)
	case "ReplaceDisk":
		err := s.ReplaceDisk(rawfs.Real(op.Target), rawfs.Real(op.Source))
		d.emit("ReplaceDisk", map[string]interface{}{"target": op.Target, "source": op.Source}, err, nil, nil)
	case "CloseOpenRace":
		// an attach (open) arrives while a close of the same replica is in progress: the
		// open may only succeed once the previous instance is completely closed
		r0 := s.Replica()
		cdone := make(chan error, 1)
		go func() { cdone <- s.Close() }()
		time.Sleep(60 * time.Millisecond)
		oerr := s.Open()
		oldLive := false
		if oerr == nil && r0 != nil && r0.GetReplicaMode() != "CLOSED" {
			oldLive = true
		}
		cerr := <-cdone
		if oerr != nil && r0 != nil {
			// the open came first and was refused; the close ran afterwards
			d.emitX("Open", nil, oerr, nil, nil, false, map[string]interface{}{"race": true})
			d.emit("Close", nil, cerr, nil, nil)
		} else {
			d.emitX("Close", nil, cerr, nil, nil, true, nil)
			d.emitX("Open", nil, oerr, nil, nil, false, map[string]interface{}{"race": true, "oldlive": oldLive})
		}
	case "SetPreload":
		err := s.SetPreload(op.P)
		d.emit("SetPreload", map[string]interface{}{"p": op.P}, err, nil, nil)
	case "SetPunch":
		types.ShouldPunchHoles = op.P
		d.emit("SetPunch", map[string]interface{}{"p": op.P}, nil, nil, nil)
	case "SetMode":
		err := s.SetReplicaMode(op.Mode)
		d.emit("SetMode", map[string]interface{}{"mode": op.Mode}, err, nil, nil)
	case "SetRebuilding":
		err := s.SetRebuilding(op.R)
		d.emit("SetRebuilding", map[string]interface{}{"r": op.R}, err, nil, nil)
	case "SetCheckpoint":
		err := s.SetCheckpoint(rawfs.Real(op.Name))
		d.emit("SetCheckpoint", map[string]interface{}{"name": op.Name}, err, nil, nil)
	case "SetRev":
		err := s.SetRevisionCounter(op.C)
		d.emit("SetRev", map[string]interface{}{"c": op.C}, err, nil, nil)
	default:
		fmt.Fprintln(os.Stderr, "HARNESS-ERROR: unknown op", op.Ev)
		os.Exit(2)
	}
}

func (d *drv) finish() {
	if d.s != nil {
		d.s.Close()
	}
	os.RemoveAll(d.dir)
}

// ---------------------------------------------------------------------------
// built-in generator: state-aware (asks the engine for its chain), seeded

func (d *drv) chain() []string { // base..head, normalised
	r := d.s.Replica()
	if r == nil {
		return nil
	}
	ch, err := r.Chain()
	if err != nil {
		return nil
	}
	out := []string{}
	for i := len(ch) - 1; i >= 0; i-- {
		out = append(out, rawfs.Norm(ch[i]))
	}
	return out
}

func (d *drv) size() int64 {
	if r := d.s.Replica(); r != nil {
		return r.Info().Size / rawfs.BlockSize
	}
	info, _ := replica.ReadInfo(d.dir)
	return info.Size / rawfs.BlockSize
}

func (d *drv) genWrite(multi bool) Op {
	ns := d.size() * rawfs.SPB
	rng := d.rng
	var s0, n int64
	switch k := rng.Intn(10); {
	case multi || k < 3: // multi-block, block aligned
		nb := d.size()
		b0 := rng.Int63n(nb)
		bn := 1 + rng.Int63n(nb-b0)
		s0, n = b0*rawfs.SPB, bn*rawfs.SPB
	case k < 5: // single full block
		s0, n = rng.Int63n(d.size())*rawfs.SPB, rawfs.SPB
	case k < 8: // small unaligned
		s0 = rng.Int63n(ns)
		n = 1 + rng.Int63n(min64(ns-s0, 5))
	default: // anything
		s0 = rng.Int63n(ns)
		n = 1 + rng.Int63n(ns-s0)
	}
	d.nw++
	return Op{Ev: "Write", S0: s0, N: n, V: 1 + (d.nw-1)%250}
}

func min64(a, b int64) int64 {
	if a < b {
		return a
	}
	return b
}

func (d *drv) genRead(full bool) Op {
	ns := d.size() * rawfs.SPB
	if full || d.rng.Intn(3) == 0 {
		return Op{Ev: "Read", S0: 0, N: ns}
	}
	s0 := d.rng.Int63n(ns)
	return Op{Ev: "Read", S0: s0, N: 1 + d.rng.Int63n(ns-s0)}
}

func (d *drv) snaps() []string { // chain snapshots, base..latest
	ch := d.chain()
	if len(ch) <= 1 {
		return nil
	}
	return ch[:len(ch)-1]
}


// operation classes of the generator and their weights per profile
var classes = []string{"write", "read", "fullread", "snapshot", "cleaner", "userdelete", "badremove",
	"revert", "resize", "close", "reload", "mode", "meta", "punch", "unrebuild", "forcedelete", "unmap", "replace"}

var weights = map[string][]int{
	//             wr  rd  fr  sn  cl  ud  br  rv  rs  cl  rl  mo  me  pu  ur
	"mixed":      {30, 8, 4, 15, 12, 5, 3, 4, 4, 5, 2, 3, 2, 2, 1, 3, 4, 0},
	"multiblock": {34, 6, 5, 18, 10, 3, 1, 8, 1, 5, 3, 1, 1, 3, 1, 2, 3, 0},
	"nopunch":    {30, 8, 4, 15, 12, 5, 3, 4, 4, 5, 2, 3, 2, 0, 1, 3, 4, 0},
	"cleaner":    {24, 6, 4, 20, 26, 7, 5, 1, 1, 2, 1, 1, 1, 1, 0, 8, 2, 0},
	"manage":     {14, 4, 3, 18, 10, 8, 8, 10, 6, 6, 4, 4, 4, 1, 0, 12, 2, 7},
	"resize":     {24, 8, 6, 10, 5, 1, 1, 4, 24, 9, 4, 2, 1, 1, 0, 1, 3, 0},
	"gate":       {16, 8, 3, 8, 5, 6, 5, 5, 5, 12, 4, 14, 7, 1, 1, 2, 4, 2},
}

// pick returns a value in the historical 0..99 scale used by the switch below
var thresholds = []int{0, 30, 38, 42, 57, 69, 74, 77, 81, 85, 90, 92, 95, 97, 99, 100, 101, 102}

func pick(rng *rand.Rand, profile string) int {
	w, ok := weights[profile]
	if !ok {
		w = weights["mixed"]
	}
	tot := 0
	for _, x := range w {
		tot += x
	}
	r := rng.Intn(tot)
	for i, x := range w {
		if r < x {
			return thresholds[i]
		}
		r -= x
	}
	return 0
}

// runGenerated builds and executes one scenario of about n operations.
func (d *drv) runGenerated(id int, n int, profile string) error {
	rng := d.rng
	nb := int64(2 + rng.Intn(5))
	if rng.Intn(4) == 0 {
		nb = int64(4 + rng.Intn(9))
	}
	punch := rng.Intn(4) != 0
	if profile == "nopunch" {
		punch = false
	}
	if err := d.start(Scenario{ID: id, NB: nb, Punch: punch, Src: "gen:" + profile}); err != nil {
		return err
	}
	defer d.finish()
	defer func() {
		// the generator asks the engine for its chain, size and mode; an engine in a state
		// it should never be in can trip it up: the recorded prefix is what counts
		if p := recover(); p != nil {
			fmt.Fprintln(os.Stderr, "generator stopped in scenario", id, ":", p)
		}
	}()
	steps := 0
	d.gone = nil
	do := func(op Op) { d.exec(op); steps++ }
	if profile == "shapes" {
		d.runShape(do)
		return nil
	}
	if profile == "rebuild" {
		d.runRebuild(do)
		return nil
	}
	maybeIO := func() {
		for rng.Intn(3) == 0 {
			if rng.Intn(3) == 0 {
				do(d.genRead(false))
			} else {
				do(d.genWrite(rng.Intn(2) == 0))
			}
		}
	}
	for steps < n {
		open := d.s.Replica() != nil
		if !open {
			if rng.Intn(6) == 0 { // something attempted while closed
				switch rng.Intn(4) {
				case 0:
					do(d.genWrite(false))
				case 1:
					do(d.genRead(false))
				case 2:
					do(Op{Ev: "Snapshot", Name: "closed", User: true})
				default:
					do(Op{Ev: "SetMode", Mode: "RW"})
				}
				continue
			}
			do(Op{Ev: "SetPreload", P: rng.Intn(2) == 0})
			if rng.Intn(4) == 0 {
				do(Op{Ev: "OpenRace"})
			} else {
				do(Op{Ev: "Open"})
			}
			if rng.Intn(8) != 0 {
				do(Op{Ev: "SetMode", Mode: "RW"})
			}
			continue
		}
		mode := d.s.Replica().GetReplicaMode()
		if mode == "INIT" && rng.Intn(3) != 0 {
			do(Op{Ev: "SetMode", Mode: "RW"})
			continue
		}
		snaps := d.snaps()
		k := pick(rng, profile)
		switch {
		case k == 101: // unmap: aligned run of blocks, or a ragged sector range
			ns := d.size() * rawfs.SPB
			var s0, nn int64
			if rng.Intn(2) == 0 {
				b0 := rng.Int63n(d.size())
				s0, nn = b0*rawfs.SPB, (1+rng.Int63n(d.size()-b0))*rawfs.SPB
			} else {
				s0 = rng.Int63n(ns)
				nn = 1 + rng.Int63n(min64(ns-s0, 20))
			}
			do(Op{Ev: "Unmap", S0: s0, N: nn})
			if rng.Intn(2) == 0 {
				do(d.genRead(true))
			}
		case k == 102: // ReplaceDisk with every kind of target / source
			all := d.chain()
			names := append([]string{"s-unknown"}, all...)
			// (a target that does not exist would become an image without metadata: outside the model)
			if len(all) >= 3 && rng.Intn(3) == 0 {
				// the latest snapshot folded into the one below it, then an attempt on the new latest
				tgt := all[len(all)-3]
				do(Op{Ev: "ReplaceDisk", Target: tgt, Source: all[len(all)-2]})
				if rng.Intn(2) == 0 {
					do(Op{Ev: "PrepareRemove", Name: tgt})
				} else {
					do(Op{Ev: "RemoveDisk", Name: tgt})
				}
			} else {
				do(Op{Ev: "ReplaceDisk", Target: all[rng.Intn(len(all))], Source: names[rng.Intn(len(names))]})
			}
		case k < 30 && rng.Intn(10) == 0:
			do(Op{Ev: "Burst", N: int64(2 + rng.Intn(3))})
		case k < 30:
			do(d.genWrite(profile == "multiblock" && rng.Intn(2) == 0))
		case k < 38:
			do(d.genRead(false))
		case k < 42:
			do(d.genRead(true))
		case k < 57: // snapshot
			d.snapCtr++
			name := fmt.Sprintf("%c%d", 'a'+rune(rng.Intn(26)), d.snapCtr)
			if len(d.gone) > 0 && rng.Intn(3) == 0 { // a name that was used and removed before
				name = d.gone[rng.Intn(len(d.gone))]
			} else if len(snaps) > 0 && rng.Intn(25) == 0 { // duplicate name
				name = strings.TrimPrefix(snaps[rng.Intn(len(snaps))], "s-")
			}
			do(Op{Ev: "Snapshot", Name: name, User: rng.Intn(2) == 0})
		case k < 69: // background cleaner round
			if len(snaps) >= 3 {
				// the controller agrees on the latest snapshot as checkpoint
				cp := snaps[len(snaps)-1]
				if rng.Intn(4) == 0 {
					cp = snaps[rng.Intn(len(snaps))]
				}
				if rawfs.Norm(d.s.Replica().Info().Checkpoint) != cp {
					do(Op{Ev: "SetCheckpoint", Name: cp})
				}
			}
			r := d.s.Replica()
			cand, _ := jsync.GetDeleteCandidateChain(r, r.Info().Checkpoint)
			do(Op{Ev: "CleanerPick"})
			if len(cand) == 0 || mode != "RW" {
				continue
			}
			victim := rawfs.Norm(cand[0])
			maybeIO()
			do(Op{Ev: "PrepareRemove", Name: victim, Bare: rng.Intn(2) == 0})
			maybeIO()
			do(Op{Ev: "Coalesce", Name: victim})
			maybeIO()
			do(Op{Ev: "RemoveDisk", Name: victim})
			d.gone = append(d.gone, strings.TrimPrefix(victim, "s-"))
		case k == 100 && mode == "RW":
			// delete an arbitrary eligible middle snapshot outright (prepare, merge, unlink):
			// eligible = not protected and its merge target is not a retained user snapshot
			all := d.chain()
			disks := d.s.Replica().ListDisks()
			var elig []string
			for i := 1; i+2 < len(all); i++ {
				p := disks[rawfs.Real(all[i-1])]
				if !(p.UserCreated && !p.Removed) {
					elig = append(elig, all[i])
				}
			}
			if len(elig) == 0 {
				continue
			}
			victim := elig[rng.Intn(len(elig))]
			do(Op{Ev: "PrepareRemove", Name: victim})
			maybeIO()
			do(Op{Ev: "Coalesce", Name: victim})
			do(Op{Ev: "RemoveDisk", Name: victim})
			d.gone = append(d.gone, strings.TrimPrefix(victim, "s-"))
		case k < 74: // user deletion request (mark removed), any member or unknown
			all := d.chain()
			name := "s-unknown"
			if len(all) > 0 && rng.Intn(6) != 0 {
				name = all[rng.Intn(len(all))]
			}
			do(Op{Ev: "PrepareRemove", Name: name, Bare: strings.HasPrefix(name, "s-") && rng.Intn(2) == 0})
		case k < 77: // direct remove of a protected / unknown name
			all := d.chain()
			cands := []string{"s-unknown"}
			if len(all) > 0 {
				cands = append(cands, all[len(all)-1], all[0])
				if len(all) > 1 {
					cands = append(cands, all[len(all)-2])
				}
			}
			do(Op{Ev: "RemoveDisk", Name: cands[rng.Intn(len(cands))]})
		case k < 81: // revert
			if len(snaps) > 0 && rng.Intn(6) != 0 {
				do(Op{Ev: "Revert", Name: snaps[rng.Intn(len(snaps))]})
			} else if rng.Intn(2) == 0 {
				do(Op{Ev: "Revert", Name: "s-unknown"})
			} else {
				if all := d.chain(); len(all) > 0 {
					do(Op{Ev: "Revert", Name: all[len(all)-1]})
				}
			}
		case k < 85: // resize
			sz := d.size()
			switch r := rng.Intn(6); {
			case r == 0 && sz > 1:
				do(Op{Ev: "Resize", NB: sz - 1})
			case r == 1:
				do(Op{Ev: "Resize", NB: sz})
			default:
				if sz < 16 {
					do(Op{Ev: "Resize", NB: min64(16, sz+1+int64(rng.Intn(2)))})
				}
			}
		case k < 90: // close (+ reopen next round)
			if rng.Intn(5) == 0 {
				do(Op{Ev: "CloseOpenRace"})
			} else {
				do(Op{Ev: "Close"})
			}
		case k < 92:
			do(Op{Ev: "SetPreload", P: rng.Intn(2) == 0})
			do(Op{Ev: "Reload"})
			do(Op{Ev: "SetPreload", P: true})
		case k < 95:
			m := []string{"RW", "WO", "RW", "ERR"}[rng.Intn(4)]
			do(Op{Ev: "SetMode", Mode: m})
		case k < 97:
			switch rng.Intn(3) {
			case 0:
				do(Op{Ev: "SetRebuilding", R: rng.Intn(2) == 0})
			case 1:
				cur := d.s.Replica().GetRevisionCounter()
				switch rng.Intn(4) {
				case 0: // a value with fewer digits than the current one (promotion to a source that is behind)
					if cur >= 10 {
						do(Op{Ev: "SetRev", C: 1 + int64(rng.Intn(9))})
					} else {
						do(Op{Ev: "SetRev", C: cur + 100})
					}
				default:
					do(Op{Ev: "SetRev", C: cur + int64(rng.Intn(3))})
				}
			default:
				do(Op{Ev: "Open"})
			}
		case k < 99:
			do(Op{Ev: "SetPunch", P: rng.Intn(3) != 0})
		case k == 100:
			do(d.genRead(false))
		default:
			do(Op{Ev: "SetRebuilding", R: false})
		}
	}
	// closing observation: full read, reopen, full read
	if d.s.Replica() != nil {
		do(d.genRead(true))
		do(Op{Ev: "Close"})
	}
	do(Op{Ev: "SetPreload", P: rng.Intn(2) == 0})
	do(Op{Ev: "Open"})
	do(d.genRead(true))
	return nil
}

// runShape: one chain shape (length, which members are user-created, which are marked
// removed, where the checkpoint is, a data layout) and then cleaner rounds until no
// candidate is left -- the C11 quantifier, sampled uniformly
func (d *drv) runShape(do func(Op)) {
	rng := d.rng
	L := 3 + rng.Intn(4) // snapshots
	names := []string{}
	for i := 0; i < L; i++ {
		do(d.genWrite(rng.Intn(2) == 0))
		if rng.Intn(3) == 0 {
			do(d.genWrite(false))
		}
		d.snapCtr++
		nm := fmt.Sprintf("k%d", d.snapCtr)
		names = append(names, "s-"+nm)
		do(Op{Ev: "Snapshot", Name: nm, User: rng.Intn(2) == 0})
	}
	do(d.genWrite(false))
	for _, nm := range names {
		if rng.Intn(3) == 0 {
			do(Op{Ev: "PrepareRemove", Name: nm, Bare: rng.Intn(2) == 0})
		}
	}
	do(Op{Ev: "SetCheckpoint", Name: names[len(names)-1-rng.Intn(2)]})
	do(d.genRead(true))
	if rng.Intn(2) == 0 {
		// the cleaner of a restarted replica: chain and flags come from the files
		do(Op{Ev: "Close"})
		do(Op{Ev: "SetPreload", P: rng.Intn(3) != 0})
		do(Op{Ev: "Open"})
		do(Op{Ev: "SetMode", Mode: "RW"})
	}
	for round := 0; round < 4; round++ {
		r := d.s.Replica()
		if r == nil {
			break
		}
		cand, _ := jsync.GetDeleteCandidateChain(r, r.Info().Checkpoint)
		do(Op{Ev: "CleanerPick"})
		if len(cand) == 0 {
			break
		}
		victim := rawfs.Norm(cand[0])
		do(Op{Ev: "PrepareRemove", Name: victim})
		if rng.Intn(3) == 0 {
			do(d.genWrite(false))
		}
		do(Op{Ev: "Coalesce", Name: victim})
		do(Op{Ev: "RemoveDisk", Name: victim})
		do(d.genRead(true))
		if rng.Intn(2) == 0 {
			// overwrite everything (or unmap a part): the previous owners lose their blocks
			// wherever reclamation thinks it may
			if rng.Intn(4) == 0 {
				b0 := rng.Int63n(d.size())
				do(Op{Ev: "Unmap", S0: b0 * rawfs.SPB, N: (1 + rng.Int63n(d.size()-b0)) * rawfs.SPB})
			} else {
				d.nw++
				do(Op{Ev: "Write", S0: 0, N: d.size() * rawfs.SPB, V: 1 + (d.nw-1)%250})
			}
			do(d.genRead(true))
		}
	}
	do(Op{Ev: "Close"})
	do(Op{Ev: "Open"})
	do(d.genRead(true))
}

// runRebuild: the replica's side of a rebuild.  A replica with some history is reopened
// without preload and put in WO; the controller's add-snapshot is taken; while the sync
// agent rewrites the snapshot files with the healthy replica's (another chain: other
// names, contents and flags, ending in the add-snapshot) writes and unmaps keep arriving;
// then reload without preload, UpdateLUNMap (in one piece, or with I/O between its two
// locked sections), promotion, and ordinary life afterwards.
func (d *drv) runRebuild(do func(Op)) {
	rng := d.rng
	// history of the stale replica
	for i, n := 0, 1+rng.Intn(3); i < n; i++ {
		do(d.genWrite(rng.Intn(2) == 0))
		do(d.genWrite(false))
		d.snapCtr++
		do(Op{Ev: "Snapshot", Name: fmt.Sprintf("o%d", d.snapCtr), User: rng.Intn(3) == 0})
	}
	do(d.genWrite(false))
	if rng.Intn(2) == 0 { // the stale replica had got ahead (its counter has more digits than the source's)
		do(Op{Ev: "SetRev", C: []int64{11, 38, 104}[rng.Intn(3)]})
	}
	do(Op{Ev: "Close"})
	do(Op{Ev: "SetPreload", P: false})
	do(Op{Ev: "Open"})
	do(Op{Ev: "SetPunch", P: false})
	do(Op{Ev: "SetMode", Mode: "WO"})
	d.snapCtr++
	add := fmt.Sprintf("add%d", d.snapCtr)
	do(Op{Ev: "Snapshot", Name: add, User: false})
	do(Op{Ev: "SetRebuilding", R: true})
	wo := func() {
		for rng.Intn(2) == 0 {
			switch rng.Intn(5) {
			case 0:
				ns := d.size() * rawfs.SPB
				s0 := rng.Int63n(ns)
				do(Op{Ev: "Unmap", S0: s0, N: 1 + rng.Int63n(min64(ns-s0, 12))})
			default:
				do(d.genWrite(rng.Intn(3) == 0))
			}
		}
	}
	// the healthy replica's chain: some of the old names, some new ones, the add-snapshot last
	old := d.snaps() // base .. add
	var src []string
	for _, n := range old[:len(old)-1] {
		if rng.Intn(2) == 0 {
			src = append(src, n)
		}
	}
	for i, n := 0, rng.Intn(3); i < n; i++ {
		d.snapCtr++
		src = append(src, fmt.Sprintf("s-n%d", d.snapCtr))
	}
	rng.Shuffle(len(src), func(i, j int) { src[i], src[j] = src[j], src[i] })
	src = append(src, "s-"+add)
	nb := int(d.size())
	parent := ""
	allUser := rng.Intn(3) == 0 // every synced snapshot user-created: all of them are retained
	for i, n := range src {
		blocks := make([]int, nb)
		for b := range blocks {
			if rng.Intn(5) < 2 {
				blocks[b] = 150 + (i*7+b)%90
			}
		}
		wo()
		do(Op{Ev: "SyncFile", Name: n, Parent: parent, User: allUser || rng.Intn(3) == 0, Blocks: blocks})
		parent = n
	}
	wo()
	do(Op{Ev: "Reload"})
	wo() // writes that land after the reload and before UpdateLUNMap scans the head
	if rng.Intn(2) == 0 {
		do(Op{Ev: "UpdateLUNMap"})
	} else {
		do(Op{Ev: "LunMapScan"})
		// writes between the extent scan and the merge: the merge decides which older copies
		// of these blocks may be punched out (none at or below the newest user snapshot)
		for i, n := 0, rng.Intn(4); i < n; i++ {
			do(d.genWrite(rng.Intn(2) == 0))
		}
		wo()
		if rng.Intn(3) == 0 {
			do(d.genRead(false))
		}
		do(Op{Ev: "LunMapMerge"})
	}
	do(Op{Ev: "SetPreload", P: true})
	do(Op{Ev: "SetMode", Mode: "RW"})
	// the source's counter: more, as many or fewer digits than the stale replica's own
	do(Op{Ev: "SetRev", C: []int64{3, 7, 12, 45, 120}[rng.Intn(5)]})
	do(Op{Ev: "SetRebuilding", R: false})
	do(d.genRead(true))
	for i, n := 0, 2+rng.Intn(5); i < n; i++ {
		switch rng.Intn(6) {
		case 0:
			d.snapCtr++
			do(Op{Ev: "Snapshot", Name: fmt.Sprintf("p%d", d.snapCtr), User: rng.Intn(2) == 0})
		case 1:
			do(d.genRead(false))
		default:
			do(d.genWrite(rng.Intn(2) == 0))
		}
	}
	do(d.genRead(true))
	do(Op{Ev: "Close"})
	do(Op{Ev: "SetPreload", P: rng.Intn(2) == 0})
	do(Op{Ev: "Open"})
	do(d.genRead(true))
}

// runCleanerLoop runs the REAL background cleaner (sync.Task.InternalSnapshotCleaner: timer,
// checkpoint comparison, retention count, prepare -> coalesce -> remove) against a stub
// controller (GET /v1/checkpoint) and a stub sync agent (the fold request).  The stub agent is
// where the driver observes the intermediate states: when the fold request arrives the cleaner
// goroutine is blocked in it, so the state after PrepareRemoveDisk can be recorded; the agent
// then either folds (sparse.FoldFile, what sfold does) or reports a failure; after the reply
// the cleaner's next step (RemoveDiffDisk, or nothing) is awaited and recorded.
var theSeed int64

func (d *drv) runCleanerLoop(id int, failFold bool) error {
	jsync.SnapshotRetentionCount = 2
	if err := d.start(Scenario{ID: id, NB: 4, Punch: true, Src: fmt.Sprintf("cleanerloop:foldfail=%v:seed=%d", failFold, theSeed)}); err != nil {
		return err
	}
	defer d.finish()
	do := func(op Op) { d.exec(op) }
	// stub sync agent on port Q; the replica client derives it from the replica address (port Q-2)
	al, err := net.Listen("tcp", "127.0.0.1:0")
	if err != nil {
		return err
	}
	defer al.Close()
	aport := al.Addr().(*net.TCPAddr).Port
	cl, err := net.Listen("tcp", "127.0.0.1:0")
	if err != nil {
		return err
	}
	defer cl.Close()
	cport := cl.Addr().(*net.TCPAddr).Port
	type foldReq struct{ src, dst string }
	folds := make(chan foldReq, 4)
	proceed := make(chan bool, 4)
	amux := http.NewServeMux()
	reply := func(w http.ResponseWriter, code int) {
		json.NewEncoder(w).Encode(map[string]interface{}{"id": "1", "type": "process", "exitCode": code,
			"links": map[string]string{"self": fmt.Sprintf("http://127.0.0.1:%d/v1/processes/1", aport)}})
	}
	lastCode := 0
	amux.HandleFunc("/v1/processes", func(w http.ResponseWriter, r *http.Request) {
		var p struct {
			ProcessType string `json:"processType"`
			SrcFile     string `json:"srcFile"`
			DestFile    string `json:"destfile"`
		}
		json.NewDecoder(r.Body).Decode(&p)
		folds <- foldReq{p.SrcFile, p.DestFile}
		ok := <-proceed
		lastCode = 0
		if !ok {
			lastCode = 1
		}
		reply(w, lastCode)
	})
	amux.HandleFunc("/v1/processes/1", func(w http.ResponseWriter, r *http.Request) { reply(w, lastCode) })
	go http.Serve(al, amux)
	cpName := ""
	cmux := http.NewServeMux()
	cmux.HandleFunc("/v1/checkpoint", func(w http.ResponseWriter, r *http.Request) {
		json.NewEncoder(w).Encode(map[string]interface{}{"type": "checkpoint", "snapshot": cpName})
	})
	go http.Serve(cl, cmux)
	repClient, err := replicaClient.NewReplicaClient(fmt.Sprintf("tcp://127.0.0.1:%d", aport-2))
	if err != nil {
		return err
	}
	task := jsync.NewTask(fmt.Sprintf("http://127.0.0.1:%d", cport))
	go task.InternalSnapshotCleaner(d.s, repClient) // its 60 s timer starts now

	// a chain with three candidates below the checkpoint
	rng := d.rng
	for i := 1; i <= 5; i++ {
		do(d.genWrite(rng.Intn(2) == 0))
		if rng.Intn(2) == 0 {
			do(d.genWrite(false))
		}
		do(Op{Ev: "Snapshot", Name: fmt.Sprintf("c%d", i), User: false})
	}
	do(d.genWrite(false))
	do(Op{Ev: "SetCheckpoint", Name: "s-c5"})
	cpName = rawfs.Real("s-c5")
	do(d.genRead(true))
	do(Op{Ev: "CleanerPick"})
	select {
	case fr := <-folds:
		victim := rawfs.Norm(fr.src)
		// the cleaner is waiting for the agent: the state after its PrepareRemoveDisk
		d.emit("PrepareRemove", map[string]interface{}{"name": victim, "bare": false}, nil, nil, nil)
		if failFold {
			proceed <- false
			time.Sleep(2500 * time.Millisecond) // whatever the cleaner does after a failed merge has happened by now
			d.emit("CleanerIdle", map[string]interface{}{"after": "failed-coalesce", "name": victim}, nil, nil, nil)
		} else {
			ferr := sparse.FoldFile(filepath.Join(d.dir, fr.src), filepath.Join(d.dir, fr.dst), foldOps{})
			d.emit("Coalesce", map[string]interface{}{"name": victim}, ferr, nil, nil)
			proceed <- ferr == nil
			gone := false
			for i := 0; i < 400 && !gone; i++ {
				time.Sleep(50 * time.Millisecond)
				gone = true
				for _, n := range d.chain() {
					if n == victim {
						gone = false
					}
				}
			}
			time.Sleep(1200 * time.Millisecond) // RemoveDiffDisk drains the hole queue (about 1 s) under the server lock
			if gone {
				d.emit("RemoveDisk", map[string]interface{}{"name": victim}, nil, nil, nil)
			} else {
				d.emit("CleanerIdle", map[string]interface{}{"after": "coalesce", "name": victim}, nil, nil, nil)
			}
		}
	case <-time.After(75 * time.Second):
		d.emit("CleanerIdle", map[string]interface{}{"after": "no-round"}, nil, nil, nil)
	}
	do(d.genRead(true))
	do(d.genWrite(true))
	do(d.genRead(true))
	do(Op{Ev: "Close"})
	do(Op{Ev: "Open"})
	do(d.genRead(true))
	return nil
}

func main() {
	cleanerLoop := flag.Int("cleanerloop", 0, "run N rounds of the real background cleaner (odd ids: the merge fails)")
	in := flag.String("in", "", "scenario file (ndjson)")
	gen := flag.Int("gen", 0, "number of scenarios to generate")
	genLen := flag.Int("len", 12, "operations per generated scenario")
	seed := flag.Int64("seed", 1, "generator seed")
	base := flag.Int("base", 0, "first scenario id")
	profile := flag.String("profile", "mixed", "generator profile: mixed | multiblock | nopunch")
	out := flag.String("out", "trace.ndjson", "trace output")
	work := flag.String("work", "", "scratch directory (on a file system with FIEMAP + punch hole)")
	flag.Parse()

	logrus.SetOutput(ioutil.Discard)
	logrus.SetLevel(logrus.PanicLevel)
	if *work == "" {
		fmt.Fprintln(os.Stderr, "need -work")
		os.Exit(2)
	}
	f, err := os.Create(*out)
	if err != nil {
		fmt.Fprintln(os.Stderr, err)
		os.Exit(2)
	}
	defer f.Close()
	w := bufio.NewWriterSize(f, 1<<20)
	defer w.Flush()

	go replica.CreateHoles()

	theSeed = *seed
	d := &drv{dir: filepath.Join(*work, "vol"), w: w, rng: rand.New(rand.NewSource(*seed))}
	go d.watchdog()
	if *in != "" {
		sf, err := os.Open(*in)
		if err != nil {
			fmt.Fprintln(os.Stderr, err)
			os.Exit(2)
		}
		sc := bufio.NewScanner(sf)
		sc.Buffer(make([]byte, 1<<20), 1<<26)
		for sc.Scan() {
			line := strings.TrimSpace(sc.Text())
			if line == "" {
				continue
			}
			var s Scenario
			if err := json.Unmarshal([]byte(line), &s); err != nil {
				fmt.Fprintln(os.Stderr, "HARNESS-ERROR: bad scenario:", err)
				os.Exit(2)
			}
			if err := d.start(s); err != nil {
				fmt.Fprintln(os.Stderr, "HARNESS-ERROR: start:", err)
				os.Exit(2)
			}
			for _, op := range s.Ops {
				d.exec(op)
			}
			d.finish()
		}
	}
	for i := 0; i < *cleanerLoop; i++ {
		if err := d.runCleanerLoop(*base+i, (*base+i)%2 == 1); err != nil {
			fmt.Fprintln(os.Stderr, "HARNESS-ERROR: cleaner loop:", err)
			os.Exit(2)
		}
	}
	for i := 0; i < *gen; i++ {
		if err := d.runGenerated(*base+i, *genLen, *profile); err != nil {
			fmt.Fprintln(os.Stderr, "HARNESS-ERROR: generated scenario:", err)
			os.Exit(2)
		}
	}
	_ = sort.Strings
}
