// crashvictim (harness layer L3): three modes around one replica directory.
//
//	prep  <dir> <prestate>        build a pre-state by a short history, close cleanly
//	op    <dir> <op> [arg]        open the replica, then perform exactly one operation between
//	                              two marker system calls (getppid); prints a JSON result line
//	                              and exits WITHOUT closing (a completed operation followed by
//	                              process death).  Run under strace with kill / error injection.
//	check <dir>                   reopen with the real code (recovery), print chain, size,
//	                              counter, live image read through the engine and raw images
//
// The operating thread is locked (GOMAXPROCS=1 + LockOSThread) so that the
// operation's system calls come from one thread in program order.
package main

import (
	"encoding/json"
	"fmt"
	"io/ioutil"
	"os"
	"path/filepath"
	"runtime"
	"strconv"
	"syscall"
	"time"

	"github.com/openebs/jiva/replica"
	"github.com/openebs/jiva/types"
	"github.com/openebs/sparse-tools/sparse"
	"github.com/sirupsen/logrus"

	"verifharness/rawfs"
)

type foldOps struct{}

func (foldOps) UpdateFoldFileProgress(progress int, done bool, err error) {}

func fill(nsect int, v int) []byte {
	b := make([]byte, nsect*rawfs.SectorSize)
	for i := range b {
		b[i] = byte(v)
	}
	return b
}

func must(err error, what string) {
	if err != nil {
		fmt.Fprintln(os.Stderr, "VICTIM-ERROR:", what, err)
		os.Exit(4)
	}
}

func now() string { return time.Now().UTC().Format(time.RFC3339) }

func openRW(dir string) *replica.Server {
	s := replica.NewServer("127.0.0.1:9502", dir, 512, "Backend")
	must(s.Open(), "open")
	must(s.SetReplicaMode("RW"), "setmode")
	return s
}

func prep(dir, pre string) {
	os.RemoveAll(dir)
	must(os.MkdirAll(dir, 0700), "mkdir")
	s := replica.NewServer("127.0.0.1:9502", dir, 512, "Backend")
	must(s.Create(4*rawfs.BlockSize), "create")
	must(s.Open(), "open")
	must(s.SetReplicaMode("RW"), "mode")
	w := func(s0, n, v int) {
		_, err := s.WriteAt(fill(n, v), int64(s0)*rawfs.SectorSize)
		must(err, "write")
	}
	switch pre {
	case "p1": // one head, some data
		w(0, 8, 1)
		w(10, 3, 2)
	case "p2": // base(user) <- auto <- head
		w(0, 16, 1)
		must(s.Snapshot("u1", true, now()), "snap")
		w(8, 8, 2)
		must(s.Snapshot("x1", false, now()), "snap")
		w(4, 6, 3)
	case "p3": // base <- u1(user) <- x1 <- x2 <- u2(user) <- head, checkpoint u2
		w(0, 32, 1)
		must(s.Snapshot("b0", false, now()), "snap")
		w(0, 8, 2)
		must(s.Snapshot("u1", true, now()), "snap")
		w(8, 8, 3)
		must(s.Snapshot("x1", false, now()), "snap")
		w(16, 8, 4)
		must(s.Snapshot("x2", false, now()), "snap")
		w(3, 7, 5)
		must(s.Snapshot("u2", true, now()), "snap")
		w(20, 5, 6)
		must(s.SetCheckpoint("volume-snap-u2.img"), "cp")
	default:
		must(fmt.Errorf("unknown prestate %s", pre), "prep")
	}
	must(s.Close(), "close")
}

type result struct {
	Res string `json:"res"`
	Err string `json:"err"`
}

func doOp(dir, op, arg string) {
	s := replica.NewServer("127.0.0.1:9502", dir, 512, "Backend")
	var err error
	begin := func() {
		if os.Getenv("VICTIM_STOP_AT_BEGIN") != "" {
			os.Exit(0) // the state the operation under test starts from
		}
		syscall.Getppid()
	}
	end := func() { syscall.Getppid() }
	if op == "open" {
		begin()
		err = s.Open()
		end()
	} else {
		must(s.Open(), "open")
		must(s.SetReplicaMode("RW"), "setmode")
		switch op {
		case "snapshot-user":
			begin()
			err = s.Snapshot(arg, true, now())
			end()
		case "snapshot-auto":
			begin()
			err = s.Snapshot(arg, false, now())
			end()
		case "prepareremove":
			begin()
			_, err = s.PrepareRemoveDisk(arg)
			end()
		case "remove":
			// the out-of-process merge happened earlier; the unlink is the operation under test
			name := "volume-snap-" + arg + ".img"
			_, perr := s.PrepareRemoveDisk(name)
			must(perr, "prepare")
			parent := s.Replica().ListDisks()[name].Parent
			must(sparse.FoldFile(filepath.Join(dir, name), filepath.Join(dir, parent), foldOps{}), "fold")
			begin()
			err = s.RemoveDiffDisk(name)
			end()
		case "revert":
			begin()
			err = s.Revert("volume-snap-"+arg+".img", now())
			end()
		case "resize":
			nb, _ := strconv.Atoi(arg)
			begin()
			err = s.Resize(strconv.Itoa(nb * rawfs.BlockSize))
			end()
		case "setcheckpoint":
			begin()
			err = s.SetCheckpoint("volume-snap-" + arg + ".img")
			end()
		case "setrebuilding":
			begin()
			err = s.SetRebuilding(true)
			end()
		case "write":
			// sectors 6..13 (two partial blocks) with stamp 99
			begin()
			_, err = s.WriteAt(fill(8, 99), 6*rawfs.SectorSize)
			end()
		case "close":
			begin()
			err = s.Close()
			end()
		default:
			must(fmt.Errorf("unknown op %s", op), "op")
		}
	}
	r := result{Res: "ok"}
	if err != nil {
		r = result{Res: "err", Err: err.Error()}
	}
	if os.Getenv("VICTIM_CLOSE_AFTER") != "" && op != "close" {
		// the process lives on after the (failed) call and shuts down cleanly later: whatever the
		// call left in memory is what the shutdown persists
		if cerr := s.Close(); cerr != nil {
			r.Err += " | close: " + cerr.Error()
		}
	}
	b, _ := json.Marshal(r)
	fmt.Println("RESULT " + string(b))
	os.Exit(0)
}

type checkOut struct {
	Open   string           `json:"open"` // "ok" or the error
	Chain  []string         `json:"chain"`
	Size   int64            `json:"size"`
	Rev    int64            `json:"rev"`
	CP     string           `json:"cp"`
	Reb    bool             `json:"rebuilding"`
	Live   []int            `json:"live"`   // read through the engine
	Images map[string][]int `json:"images"` // raw image per chain member (base..that member)
	Flags  map[string][]bool `json:"flags"` // user, removed per member
	Garbage []string        `json:"garbage"`
}

func rawImage(d *rawfs.Dir, top string, nsect int) []int {
	img := make([]int, nsect)
	path := []string{}
	for cur := top; cur != ""; {
		f, ok := d.Files[cur]
		if !ok {
			break
		}
		path = append([]string{cur}, path...)
		cur = f.Parent
	}
	for _, nm := range path {
		f := d.Files[nm]
		for b := 0; b*rawfs.SPB < nsect && b < len(f.Data); b++ {
			if len(f.Data[b]) == rawfs.SPB {
				copy(img[b*rawfs.SPB:], f.Data[b])
			}
		}
	}
	return img
}

func check(dir string) {
	out := checkOut{Chain: []string{}, Images: map[string][]int{}, Flags: map[string][]bool{}, Live: []int{}, Garbage: []string{}}
	s := replica.NewServer("127.0.0.1:9502", dir, 512, "Backend")
	err := s.Open()
	if err != nil {
		out.Open = err.Error()
	} else {
		out.Open = "ok"
		r := s.Replica()
		ch, cerr := r.Chain()
		if cerr != nil {
			out.Open = "chain: " + cerr.Error()
		}
		for i := len(ch) - 1; i >= 0; i-- {
			out.Chain = append(out.Chain, rawfs.Norm(ch[i]))
		}
		info := r.Info()
		out.Size = info.Size / rawfs.BlockSize
		out.CP = rawfs.Norm(info.Checkpoint)
		out.Reb = info.Rebuilding
		out.Rev = r.GetRevisionCounter()
		buf := make([]byte, info.Size)
		if _, rerr := s.ReadAt(buf, 0); rerr != nil {
			out.Open = "read: " + rerr.Error()
		} else {
			out.Live = rawfs.Stamps(buf)
		}
	}
	d, serr := rawfs.Scan(dir)
	if serr == nil {
		out.Garbage = d.Garbage
		for _, nm := range out.Chain {
			out.Images[nm] = rawImage(d, nm, int(out.Size)*rawfs.SPB)
			if f, ok := d.Files[nm]; ok {
				out.Flags[nm] = []bool{f.User, f.Removed}
			}
		}
	}
	b, _ := json.Marshal(out)
	fmt.Println("CHECK " + string(b))
	os.Exit(0)
}

// the main goroutine stays on the process's first thread from the very
// beginning, so that per-thread system-call counts are reproducible
func init() { runtime.LockOSThread() }

func main() {
	runtime.GOMAXPROCS(1)
	logrus.SetOutput(ioutil.Discard)
	logrus.SetLevel(logrus.PanicLevel)
	types.ShouldPunchHoles = false
	go replica.CreateHoles()
	if len(os.Args) < 3 {
		fmt.Fprintln(os.Stderr, "usage: crashvictim prep|op|check <dir> ...")
		os.Exit(2)
	}
	arg := func(i int) string {
		if len(os.Args) > i {
			return os.Args[i]
		}
		return ""
	}
	switch os.Args[1] {
	case "prep":
		prep(os.Args[2], arg(3))
	case "op":
		doOp(os.Args[2], arg(3), arg(4))
	case "check":
		check(os.Args[2])
	}
}
