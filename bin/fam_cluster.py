"""Cluster family: C07 (rebuild) and C19 (clone) on a REAL cluster (DESIGN.md 3.4, 5).
(A) TLC checks Rebuild.tla (add / per-file sync / reload / verify interleaved with writes and kills)
    -- and, for C19, the clone side of it -- and refutes the combined mutant;
(B) harness L2: in-process controller with its real REST router, real `jiva replica` processes built
    from /repo with their sync agents; kill -9 of process groups; the verif hook at the success exit of
    VerifyRebuildReplica records raw images of both directories under the controller lock;
(C) TLC evaluates the rules of ClusterTrace.tla on the recorded executions."""
import json, os, re, shutil, time
from vlib import *

FAMILY = ["C07", "C19"]

RULES = {"C07": {"PromotedIdentical.unreadable", "PromotedIdentical.live", "PromotedIdentical.chain", "PromotedIdentical.snapshot",
                 "RevEqualised", "AckedHeld", "AckedHeld.final", "ReplicasIdentical.final", "RevEqual.final", "OneRebuilder",
                 "RWOnlyViaPromotion", "ReadFresh"},
         "C19": {"NotServedBeforeCompleted", "ErrorNeverServes", "CloneImageEqualsS", "CloneImageEqualsS.raw", "CloneRevEqualsS",
                 "CompletedOnlyWhenIdentical"}}


def mc_cfg(bugs=(), maxw=3, maxs=3):
    return ("SPECIFICATION Spec\nCONSTANTS\n  MaxW = %d\n  MaxSnap = %d\n  Bug = {%s}\nINVARIANTS PromotedIdentical AckedHeld\nCHECK_DEADLOCK FALSE\n"
            % (maxw, maxs, ", ".join('"%s"' % b for b in bugs)))


def ids(img):
    return {v for i, v in enumerate(img) if v != 0 and v == i + 1}


def explain(evs, f):
    """context of a data mismatch: 'stale-rmw' iff every acknowledged write that the rebuilt replica lacks
    (a) was applied while that replica was detached and (b) lies in a 4 KiB block into which a sub-block
    write went while the replica was rebuilding (WO) -- the replica's read-modify-write filled the rest of
    the block from its own stale chain and its head now shadows the synced data"""
    if evs[0].get("aligned"):
        return "aligned"
    rec = [e for e in evs if e["seq"] == f["seq"]][0]
    pairs = []
    if rec["ev"] == "Promoted":
        pairs = [(rec["target"], ids(rec["sv"]["live"]) - ids(rec["tv"]["live"]))]
    elif rec["ev"] == "Final":
        full = set(rec["acked"])
        pairs = [(a, full - ids(v["live"])) for a, v in rec["views"].items() if rec["ctl"]["replicas"].get(a) == "RW"]
    elif rec["ev"] == "Read":
        # a read served by the rebuilt replica: judged against every replica that went through a rebuild
        missing = {w for w in rec["acked"] if not (w - 1 < len(rec["out"]) and rec["out"][w - 1] == w)}
        rebuilt = {a for e in evs if e["seq"] < rec["seq"] for a, m in ((e.get("ctl") or {}).get("replicas") or {}).items() if m == "WO"}
        if not missing or not rebuilt:
            return "unexplained"
        for target in sorted(rebuilt):
            if _stale_rmw(evs, target, missing):
                return "stale-rmw"
        return "unexplained"
    else:
        return "other"
    for target, missing in pairs:
        if missing and not _stale_rmw(evs, target, missing):
            return "unexplained"
    # (a mismatch without any missing acknowledged write is something else)
    return "stale-rmw" if any(m for _, m in pairs) else "unexplained"


def _stale_rmw(evs, target, missing):
    if True:
        for m in missing:
            wrote = [e for e in evs if e["ev"] == "Write" and e.get("res") == "ok"]
            mine = [e for e in wrote if e["w"] == m]
            down = mine and target not in mine[0]["ctl"]["replicas"]
            later = [e for e in wrote if e["w"] != m and (e["w"] - 1) // 8 == (m - 1) // 8
                     and e["ctl"]["replicas"].get(target) == "WO" and e["seq"] > (mine[0]["seq"] if mine else 0)]
            if not (down and later):
                return False
    return True


def run(prop, tier, seed, replay=None):
    t0 = time.time()
    quick = tier == "quick"
    layer = (json.load(open(replay)).get("scenario") or {}).get("layer") if replay is not None else None
    if prop in ("C07", "C19") and layer in ("L0", "L1"):
        # a finding of one of the embedded parts: replica side (harness L0) / controller side (L1)
        import fam_controller, fam_replica
        v, k, st = (fam_controller if layer == "L1" else fam_replica).run(prop, tier, seed, replay=replay, embed=True)
        for _, rec in k:
            print("KNOWN-FINDING: property=%s %s" % (prop, _.get("what", "")))
        for path, rec in v:
            print("VIOLATION property=%s replay=%s" % (prop, path))
        return 1 if v else 0
    build_harness(["clusterdrv"])
    build_repo_binary(os.path.join(BUILD, "jiva"))
    work = scratch("cl.")
    kind = "rebuild" if prop == "C07" else "clone"
    assumptions = [
        "real processes: `jiva replica` (with sync agent and ssync children) built from /repo's working tree with the verif tag; the controller runs in the driver process with its real REST router on <ip>:9501",
        "volumes of 8 blocks, one 512-byte sector per write id; RF 2..3 for rebuild scenarios, RF 1 for both volumes of a clone scenario (REPLICATION_FACTOR is process-global)",
        "user-created snapshots and the live image must be identical at promotion; automatic snapshots may be thinned by reclamation and are compared by name (DESIGN.md 5, C07)",
        "kill points are sampled by timing (sleeps of 100-800 ms between foreground writes), not enumerated",
    ]
    try:
        mc_states = mc_trans = 0
        mc_runs = []
        if replay is None and not os.environ.get("VERIF_DEV_SKIP_MC"):
            r = run_tlc_mc("Rebuild", mc_cfg(maxw=3 if quick else 4, maxs=3 if quick else 4), timeout=3600)
            if not r["ok"]:
                raise HarnessError("Rebuild.tla violates %s" % r["violated"])
            mc_states, mc_trans = r["distinct"], r["generated"]
            mc_runs.append(dict(module="Rebuild", distinct=r["distinct"], generated=r["generated"]))
            if prop == "C07":
                # the replica's side (Replica.tla): sync under the open replica, reload, UpdateLUNMap
                import fam_replica
                r = run_tlc_mc("MCReplica", fam_replica.mc_cfg(fam_replica.REBUILD_CFG), timeout=1800)
                if not r["ok"]:
                    raise HarnessError("Replica.tla (rebuild configuration) violates %s" % r["violated"])
                mc_states += r["distinct"]
                mc_trans += r["generated"]
                mc_runs.append(dict(module="MCReplica/rebuild", distinct=r["distinct"], generated=r["generated"]))
                # sector granularity: what C07 requires holds; the as-coded read-modify-write of a
                # not-yet-synced WO replica is refuted (TLC exhibits the recorded finding, DESIGN.md 7)
                rmw = lambda bug: ("SPECIFICATION Spec\nCONSTANTS\n  SPB = 2\n  MaxW = %d\n  MaxSnap = 3\n  Bug = {%s}\n"
                                   "INVARIANTS PromotedIdentical AckedHeld\nCHECK_DEADLOCK FALSE\n" % (4 if quick else 5, bug))
                r = run_tlc_mc("RebuildRmw", rmw(""), timeout=1800)
                if not r["ok"]:
                    raise HarnessError("RebuildRmw.tla violates %s" % r["violated"])
                mc_states += r["distinct"]
                mc_trans += r["generated"]
                mc_runs.append(dict(module="RebuildRmw", distinct=r["distinct"], generated=r["generated"]))
                r = run_tlc_mc("RebuildRmw", rmw('"staleRMW"'), timeout=600)
                if r["ok"]:
                    raise HarnessError("self-check: the as-coded stale read-modify-write was not refuted")
                mc_runs.append(dict(module="RebuildRmw", mutant="staleRMW (as coded: the recorded finding)", refuted_by=r["violated"]))
            if not quick:
                r = run_tlc_mc("Rebuild", mc_cfg(("reloadEarly", "verifySkipsChain")), timeout=900)
                if r["ok"]:
                    raise HarnessError("self-check: combined mutant not refuted")
                mc_runs.append(dict(mutant="reloadEarly+verifySkipsChain", refuted_by=r["violated"]))
                r = run_tlc_mc("Rebuild", mc_cfg(("addUnlockedSnapshot",)), timeout=900)
                if r["ok"]:
                    raise HarnessError("self-check: mutant addUnlockedSnapshot not refuted")
                mc_runs.append(dict(mutant="addUnlockedSnapshot", refuted_by=r["violated"]))
        nproc = (4 if kind == "clone" else 3) if quick else 14      # clone variants go by scenario id mod 4
        per = 1 if quick else 8
        cmds, parts = [], []
        if replay is not None:
            rp = json.load(open(replay))
            scf = os.path.join(work, "replay.json")
            open(scf, "w").write(json.dumps(rp["scenario"]) + "\n")
            os.makedirs(os.path.join(work, "p0"))
            parts = [os.path.join(work, "t0.ndjson")]
            cmds = [[os.path.join(BUILD, "clusterdrv"), "-jiva", os.path.join(BUILD, "jiva"), "-work", os.path.join(work, "p0"),
                     "-out", parts[0], "-worker", "1", "-in", scf]]
        else:
            for i in range(nproc):
                pd = os.path.join(work, "p%d" % i)
                os.makedirs(pd)
                out = os.path.join(work, "t%d.ndjson" % i)
                parts.append(out)
                cmds.append([os.path.join(BUILD, "clusterdrv"), "-jiva", os.path.join(BUILD, "jiva"), "-work", pd, "-out", out,
                             "-worker", str(i + 1), "-gen", str(per), "-seed", str(seed * 100 + i), "-base", str(i * 101),
                             "-kind", kind])
        if replay is None and kind == "rebuild":
            # hand-written histories (an interrupted rebuild, another replica rebuilt meanwhile, ...)
            # (one driver per history: they run side by side)
            for j, line in enumerate(l for l in open(os.path.join(VERIF, "scenarios", "cluster_directed.ndjson")) if l.strip()):
                pd = os.path.join(work, "pd%d" % j)
                os.makedirs(pd)
                scf = os.path.join(work, "directed%d.ndjson" % j)
                open(scf, "w").write(line)
                out = os.path.join(work, "td%d.ndjson" % j)
                parts.append(out)
                cmds.append([os.path.join(BUILD, "clusterdrv"), "-jiva", os.path.join(BUILD, "jiva"), "-work", pd, "-out", out,
                             "-worker", str(nproc + 1 + j), "-in", scf])
        res = run_parallel(cmds, timeout=600 if quick else 7200)
        for (rc, out), c in zip(res, cmds):
            if rc != 0:
                raise HarnessError("cluster driver failed rc=%s\n%s" % (rc, out[-2000:]))
        trace = os.path.join(work, "trace.ndjson")
        by_t = {}
        with open(trace, "w") as tf:
            for p in parts:
                for line in open(p):
                    e = json.loads(line)
                    by_t.setdefault(e["t"], []).append(e)
                    tf.write(line)
        result = run_tlc_trace("ClusterTrace", {}, trace, timeout=1800, invariants=("Finish",))
        if result["consumed"] != result["records"]:
            raise HarnessError("ClusterTrace consumed %d of %d" % (result["consumed"], result["records"]))
        violations, known, others = [], [], []
        for f in result["failed"]:
            mine = sorted(set(f["rules"]) & RULES[prop])
            if not mine:
                others.append(f["rules"])
                continue
            evs = by_t[f["t"]]
            ctx = kind
            if set(mine) & {"PromotedIdentical.live", "AckedHeld", "AckedHeld.final", "ReplicasIdentical.final", "ReadFresh"}:
                ctx = explain(evs, f)
            sig = dict(rule=mine, site=f["ev"], context=ctx)
            frec = [e for e in evs if e["seq"] == f["seq"]]
            rec = dict(property=prop, signature=sig, failed=f, record=frec[0] if frec else None,
                       tail=[{k: v for k, v in e.items() if k not in ("tv", "sv", "views", "out", "srcsnap", "cv")} for e in evs[-12:]],
                       scenario=dict(id=f["t"], rf=evs[0].get("rf", 2), kind=kind, aligned=bool(evs[0].get("aligned")),
                                     ops=[dict(ev=e["ev"], a=e.get("a", ""), n=e.get("n", 0), name=e.get("name", "")) for e in evs[1:]
                                          if e["ev"] in ("Write", "Kill", "Spawn", "Snapshot", "WaitRW", "Read")]),
                       note="timing dependent: the replay re-runs the same operation sequence")
            k = match_known(prop, sig)
            if k:
                known.append((k, rec))
            else:
                violations.append((save_replay(prop, "%s-%s" % (tier, fingerprint([f["t"], mine])), rec), rec))
        l1 = l0 = None
        if prop == "C07" and replay is None:
            # controller side of a rebuild on harness L1: add under foreground writes, copy, promotion
            # (deterministic placement of the writes relative to the add's critical sections)
            import fam_controller
            v1, k1, l1 = fam_controller.run("C07", tier, seed, embed=True)
            violations += v1
            known += k1
            # replica side on harness L0: files rewritten under the open replica while WO writes
            # arrive, reload, UpdateLUNMap (with I/O between its sections), promotion
            import fam_replica
            v0, k0, l0 = fam_replica.run("C07", tier, seed, embed=True)
            violations += v0
            known += k0
        if prop == "C19" and replay is None:
            # the new controller's half on harness L1: a replica with a preset clone status (and one
            # whose status changes while the controller polls) -- it may be served only once the
            # status says so, a failed clone makes the start fail and leaves nothing attached
            import fam_controller
            v1, k1, l1 = fam_controller.run("C19", tier, seed, embed=True)
            violations += v1
            known += k1
        conclusive = promos = 0
        samples = []
        for t, evs in by_t.items():
            names = [e["ev"] for e in evs]
            if kind == "rebuild":
                p = names.count("Promoted")
                promos += p
                if p >= 2 and "Final" in names:
                    conclusive += 1
            else:
                fin = [e for e in evs if e["ev"] == "CloneFinal"]
                spawn = [e for e in evs if e["ev"] == "CloneSpawn"]
                if fin and (fin[0]["cctl"]["replicas"].get("k1") == "RW"):
                    conclusive += 1
                elif fin and spawn and spawn[0].get("failreload"):
                    conclusive += 1     # a clone that must fail, observed to its end
            if len(samples) < 2:
                samples.append([dict(ev=e["ev"], **{k: e[k] for k in ("a", "w", "res", "name", "target", "source", "status") if k in e})
                                for e in evs[:40]])
        if conclusive == 0 and replay is None:
            raise HarnessError("no scenario reached its target state (promotion after a kill / clone RW) in time")
        coverage = dict(states=mc_states or 1, transitions=mc_trans or 1, traces_validated_against_impl=len(by_t), samples=samples,
                        evaluations=len(by_t), distinct_nontrivial=max(conclusive, 0),
                        rule="one evaluation = one cluster scenario with real processes (bootstrap, writes, kill, restart, rebuild under foreground writes / clone with polling); non-trivial = reached a promotion after a kill (C07) or a clone that became RW / a clone whose reload was made to fail, observed to its end (C19)",
                        promotions_observed=promos, inconclusive=len(by_t) - conclusive, other_rule_failures=others[:10],
                        records_validated=result["records"], model_checking_runs=mc_runs, exhaustive=False)
        if l1:
            coverage["controller_side_L1"] = l1
            coverage["replica_side_L0"] = l0
        if coverage["distinct_nontrivial"] < 2:
            coverage["distinct_nontrivial_note"] = "fewer than 2 conclusive scenarios in this run"
        write_evidence(prop, tier, seed, "model_checking", coverage, assumptions, time.time() - t0, len(violations))
        seenk = set()
        for k, rec in known:
            if k.get("what") not in seenk:
                seenk.add(k.get("what"))
                print("KNOWN-FINDING: property=%s %s" % (prop, k.get("what", "")))
        for path, rec in violations:
            print("VIOLATION property=%s replay=%s" % (prop, path))
            print("  rule=%s site=%s" % (",".join(rec["signature"]["rule"]), rec["signature"]["site"]))
        log("[%s] %s: %d scenarios (%d conclusive, %d promotions), %d records, %d violations, %.0fs" % (
            prop, tier, len(by_t), conclusive, promos, result["records"], len(violations), time.time() - t0))
        return 1 if violations else 0
    finally:
        shutil.rmtree(work, ignore_errors=True)
