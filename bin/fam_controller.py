"""Controller family: C02 C03 C04 C05 C09 C13 C18 (DESIGN.md 3.3, 5).
(A) TLC model-checks Controller.tla (bounded instance MCController),
(B) the L1 driver (real Controller + real remote/rpc + in-process replica nodes with fault
    injection, monitor goroutines held at the verif gate) executes seeded scenarios,
(C) TLC validates every recorded execution against ControllerTrace.tla, one run per
    replication factor."""
import json, os, re, shutil, sys, time
from vlib import *

FAMILY = ["C02", "C03", "C04", "C05", "C09", "C13", "C18"]

INVS = ("TypeOK RoFresh CountMatches AtMostRF OneWO InServiceHoldAcked SignalAfterMajority SignalsMax "
        "CheckpointAgreed SnapSamePoint")
PROPS_ACT = ("ReadFresh WriteGate AckMajority FailedDetached RemovedSilent OnlySignalledStarts SnapNeedsAllRW "
             "CheckpointIsLatestWhenSet")


def s_(v):
    if isinstance(v, (set, frozenset, list, tuple)):
        return "{" + ", ".join(s_(x) for x in sorted(v, key=str)) + "}"
    if isinstance(v, bool):
        return "TRUE" if v else "FALSE"
    if isinstance(v, str):
        return '"%s"' % v
    return str(v)


def mc_cfg(c):
    t = "SPECIFICATION Spec\nCONSTANTS\n"
    for k in ["RF", "Addr", "MaxW", "Bug", "MaxSnap", "InitRevs", "Ops"]:
        t += "  %s = %s\n" % (k, s_(c[k]))
    t += "CONSTRAINT Bound\nVIEW View\nINVARIANTS %s\nPROPERTIES %s\nCHECK_DEADLOCK FALSE\n" % (INVS, PROPS_ACT)
    return t


def addrs(n):
    return {"a%d" % i for i in range(1, n + 1)}


def cfgd(**kw):
    d = dict(RF=2, Addr=addrs(3), MaxW=1, Bug=set(), MaxSnap=1, InitRevs={1}, Ops=set())
    d.update(kw)
    return d


# exhaustive configurations (sized from measured runs, see DESIGN.md 6) and mutants
MC = {
    "C02": dict(quick=[cfgd(RF=1, Addr=addrs(2), MaxW=2, Ops={"read"}), cfgd(MaxW=1, Ops=set())],
                thorough=[cfgd(MaxW=2, Ops={"read"}), cfgd(RF=3, Addr=addrs(4), MaxW=1, Ops=set())],
                mutants=[("majorityGE", "AckMajority|InServiceHoldAcked"), ("keepFailedWriters", "FailedDetached|InServiceHoldAcked")]),
    "C03": dict(quick=[cfgd(RF=1, Addr=addrs(2), MaxW=1, Ops={"seterr", "sync", "oob"}), cfgd(MaxW=1, Ops={"seterr"})],
                thorough=[cfgd(MaxW=1, Ops={"seterr", "sync", "snapshot", "snapfail"}),
                          cfgd(RF=3, Addr=addrs(4), MaxW=1, Ops={"seterr"})],
                mutants=[("skipRoUpdate", "RoFresh|CountMatches|WriteGate"), ("writeIgnoresRO", "WriteGate")]),
    "C04": dict(quick=[cfgd(RF=1, Addr=addrs(2), MaxW=2, Ops={"read"}), cfgd(MaxW=1, Ops={"read"})],
                thorough=[cfgd(MaxW=2, Ops={"read", "seterr"})],
                mutants=[("readersIncludeWO", "ReadFresh")]),
    "C05": dict(quick=[cfgd(RF=1, Addr=addrs(2), MaxW=2, Ops={"read", "seterr"}), cfgd(MaxW=1, Ops={"read"})],
                thorough=[cfgd(MaxW=2, Ops={"read", "seterr", "sync"})],
                mutants=[("keepFailedWriters", "FailedDetached|InServiceHoldAcked")]),
    "C09": dict(quick=[cfgd(MaxW=1, Ops={"sigfail", "createfail"})],
                thorough=[cfgd(MaxW=2, Ops={"sigfail", "createfail", "rebuilding"}),
                          cfgd(RF=3, Addr=addrs(4), MaxW=1, Ops={"sigfail"}),
                          cfgd(MaxW=1, Ops={"sigfail", "createfail", "clonefail"})],   # a start that meets a failed clone
                mutants=[("electRegistrant", "SignalsMax")]),
    "C13": dict(quick=[cfgd(RF=1, Addr=addrs(2), MaxW=1, MaxSnap=1, Ops={"snapshot", "snapfail", "cpfail", "revert"})],
                thorough=[cfgd(RF=1, Addr=addrs(2), MaxW=1, MaxSnap=2, Ops={"snapshot", "snapfail", "cpfail"}),
                          cfgd(MaxW=1, MaxSnap=2, Ops={"snapshot"}),
                          cfgd(MaxW=1, MaxSnap=1, Ops={"snapshot", "snapfail", "revert"})],
                mutants=[("snapNoGate", "SnapNeedsAllRW", dict(RF=2, Addr=addrs(3)))]),   # (with RF 1 "not all RW" means "no replica")
    "C18": dict(quick=[cfgd(RF=1, Addr=addrs(2), MaxW=1, Ops={"seterr", "createfail", "resize"}), cfgd(MaxW=1, Ops={"seterr"})],
                thorough=[cfgd(MaxW=1, Ops={"seterr", "createfail", "read"}),
                          cfgd(RF=3, Addr=addrs(4), MaxW=1, Ops={"seterr"})],
                mutants=[("addNoSecondRFCheck", "AtMostRF", dict(RF=1, Addr=addrs(3)))]),   # (two adds racing for the single slot)
}

PROFILE = {"C02": "mixed", "C03": "membership", "C04": "mixed", "C05": "mixed", "C09": "bootstrap",
           "C13": "snapshot", "C18": "membership",
           "C07": "rebuildrace",    # embedded in the cluster family's C07 check (controller side of a rebuild)
           "C01": "oob",            # embedded in the replica family's C01 check (the controller's range check)
           "C16": "ctlresize",      # embedded in the replica family's C16 check (the controller's grow)
           "C19": "clonestart"}     # embedded in the cluster family's C19 check (what the controller does with each clone status)

IO_EVS = {"Write", "Sync", "Unmap", "Read"}
MEMBER_RULES = {"Replicas", "NoDup", "ListsAgree", "ReadersAreRW", "WritersAreNonErr", "RWCount", "CountMatches",
                "AtMostRF", "OneWO", "RemovedSilent", "Monitors"}


def attribute(f):
    ev, rules, p = f["ev"], set(f["rules"]), set()
    if "Result" in rules:
        p |= {"Write": {"C02", "C05"}, "Sync": {"C02", "C05"}, "Unmap": {"C02", "C05"}, "Read": {"C04", "C05"},
              "Register": {"C09"}, "Start": {"C09"}, "Snapshot": {"C13"}, "Add": {"C18"}, "AddCheck": {"C18"}, "AddCommit": {"C18"},
              "VerifyRebuild": {"C18", "C03"}, "RemoveReplica": {"C18"}, "SetMode": {"C18"}}.get(ev, {"C18"})
        if ev in ("Write", "Sync", "Unmap"):
            p.add("C03")
    if rules & MEMBER_RULES:
        p.add("C18")
        if ev in IO_EVS or ev == "MonitorRun":
            p.add("C05")        # a failed replica that is not detached (or a healthy one that is)
        if ev == "Snapshot":
            p.add("C13")        # who is (not) in service after a snapshot that failed on somebody
        if ev in ("Snapshot", "Resize") and (f.get("a", {}).get("S") or f.get("a", {}).get("F")):
            p.add("C05")        # a replica that failed a fanned-out call and is (not) marked failed / detached
    if f.get("a", {}).get("oob"):
        p.add("C01")        # the controller's range check
    if rules & {"ReadOnly", "RoFresh", "WriteGate"}:
        p.add("C03")
    if rules & {"InServiceHoldAcked", "Node.log"}:
        p.add("C02")
        if ev in IO_EVS:
            p.add("C05")
    if rules & {"Touched"}:
        p |= {"C03", "C05"} if ev != "Read" else {"C04", "C05"}
    if rules & {"FailedDetached"}:
        p |= {"C02", "C05"}
        if ev == "Read":
            p.add("C04")
    if ev == "Read" and rules & {"Replicas", "Result", "Touched"}:
        p.add("C04")
    if ev == "Read" and "Result" in rules:
        p.add("C05")        # a failing minority surfaced as an I/O error (or the reverse)
    if rules & {"ReadData", "ReadFresh", "ReadersAreRW", "ServedBy", "ShortSuccess"}:
        p.add("C04")
    if rules & {"Signals", "SignalAfterMajority", "SignalsMax"}:
        p.add("C09")
    if rules & {"Checkpoint", "CheckpointAgreed", "SnapSamePoint", "SnapNeedsAllRW", "Node.cp", "Node.snaps"}:
        p.add("C13")
    if rules & {"Node.rev"}:
        p |= {"C02", "C18"}
    if rules & {"Node.state", "Node.mode"}:
        p.add("C18")
    # the controller's side of a rebuild: what the rebuilt replica holds when it is promoted
    if ev in ("RebuildCopy", "VerifyRebuild") and rules & {"Node.log", "InServiceHoldAcked", "Node.rev", "Node.snaps", "Result"}:
        p.add("C07")
    if rules & {"InServiceHoldAcked", "ReadData", "ReadFresh"} and f.get("after_rebuild"):
        p.add("C07")
    if "SizesAgree" in rules or (ev == "Resize" and rules):
        p.add("C16")
    if "Hang" in rules:
        p |= {"C05", "C18"}
    if "Panic" in rules:
        p |= {"C14"}        # reported by the management-API family
    return p


def context_of(f):
    ev, a, sp = f["ev"], f.get("a", {}), f["spec"]
    ctx = []
    pre = sp.get("pre", {})
    if ev == "SetMode":
        ctx.append("mode=%s" % a.get("mode"))
    if ev == "Snapshot" and a.get("S"):
        ctx.append("replica-snapshot-failed")
    if ev == "Register":
        if a.get("sf"):
            ctx.append("signal-fails")
        if a.get("af"):
            ctx.append("probe-fails")
        regs = {k: v for k, v in sp.get("reg", {}).items() if v}
        if regs and a.get("rev", 0) < max(regs.values()):
            ctx.append("registrant-not-max")
    if ev in IO_EVS:
        ctx.append("armed=%d" % len(a.get("A", [])))
        ctx.append("prero=%s" % str(sp.get("prero")).lower())
    if ev in ("Add", "AddCheck", "AddCommit"):
        n = len([m for m in pre.values() if m != "NONE"])
        ctx.append("members=%d" % n)
    return ",".join(ctx)


# ---- scenarios from random walks of the specification itself (MCController, TLC -simulate)
OP_RE = re.compile(r'^/\\ op = \[name \|-> "(\w+)"(?:, args \|-> \[(.*)\])?\]\s*$', re.M)


def _tla_set(txt):
    return re.findall(r'"(\w+)"', txt or "")


def _tla_args(txt):
    """flat record of strings / booleans / ints / sets of strings"""
    out = {}
    for m in re.finditer(r'(\w+) \|-> (\{[^}]*\}|"[^"]*"|TRUE|FALSE|-?\d+)', txt or ""):
        k, v = m.group(1), m.group(2)
        if v.startswith("{"):
            out[k] = _tla_set(v)
        elif v.startswith('"'):
            out[k] = v.strip('"')
        elif v in ("TRUE", "FALSE"):
            out[k] = v == "TRUE"
        else:
            out[k] = int(v)
    return out


def walks_to_scenarios(behaviours, rf, first_id):
    """TLC behaviours of MCController -> operation lists for the L1 driver.  Only the operation and
    its fault arguments are taken; what the real system answers is judged by trace validation."""
    scs = []
    for i, text in enumerate(behaviours):
        ops, pending, gated = [], None, set()
        for st in re.split(r"^STATE_?\s*\d*.*$|^State \d+:.*$", text, flags=re.M):
            m = OP_RE.search(st)
            if not m or m.group(1) == "Init":
                continue
            name, a = m.group(1), _tla_args(m.group(2))
            if pending is not None and not (name == "AddCommit" and a.get("a") == pending):
                # something runs between the two sections of that add: hold it inside factory.Create
                if not gated:
                    ops.append({"ev": "AddBegin", "a": pending})
                    gated.add(pending)
                pending = None
            if name == "Register":
                ops.append({"ev": "Register", "a": a["a"], "sf": a.get("sf", False), "af": a.get("af", False)})
            elif name == "Start":
                ops.append({"ev": "Start", "a": a["a"], "cf": a.get("cf", False)})
            elif name == "AddCheck":
                if a["a"] not in gated:
                    pending = a["a"]
            elif name == "AddCommit":
                if pending == a["a"]:
                    ops.append({"ev": "Add", "a": a["a"], "cf": a.get("cf", False), "F": [x for x in a.get("S", []) if x != "modefail"],
                                "mf": "modefail" in a.get("S", [])})
                    pending = None
                elif a["a"] in gated:
                    ops.append({"ev": "AddEnd", "a": a["a"], "cf": a.get("cf", False), "F": a.get("S", [])})
                    gated.discard(a["a"])
            elif name == "RebuildCopy":
                ops.append({"ev": "RebuildCopy", "a": a["a"], "src": a["src"]})
            elif name == "VerifyRebuild":
                ops.append({"ev": "Verify", "a": a["a"], "F": a.get("F", [])})
            elif name == "RemoveReplica":
                ops.append({"ev": "Remove", "a": a["a"]})
            elif name == "SetMode":
                ops.append({"ev": "SetMode", "a": a["a"], "mode": "ERR"})
            elif name == "MonitorRun":
                ops.append({"ev": "MonitorRun", "a": a["a"]})
            elif name in ("Write", "Sync", "Unmap", "Read"):
                if a.get("oob"):
                    ops.append({"ev": ("Write" if name != "Read" else "Read") + "OOB", "kind": "beyond"})
                else:
                    ops.append({"ev": name, "F": a.get("A", []), "mode": ["err", "err", "drop", "stall"][(i + len(ops)) % 4]})
            elif name == "Snapshot":
                ops.append({"ev": "Snapshot", "name": a["name"], "F": a.get("S", [])})
            elif name == "ReplicaRestart":
                if a["a"] not in gated:      # (not while its own add is held inside factory.Create)
                    ops.append({"ev": "ReplicaRestart", "a": a["a"]})
        if pending is not None:
            ops.append({"ev": "Add", "a": pending})
        for g in sorted(gated):
            ops.append({"ev": "AddEnd", "a": g})
        ops.append({"ev": "Read"})
        if len(ops) > 3:
            scs.append({"id": first_id + i, "rf": rf, "n": rf + 1, "src": "tlc-simulate", "ops": ops})
    return scs


def sim_cfg(rf):
    c = cfgd(RF=rf, Addr=addrs(rf + 1), MaxW=12, MaxSnap=3, InitRevs={1, 2},
             Ops={"read", "sync", "seterr", "snapshot", "snapfail", "cpfail", "sigfail", "createfail", "oob"})
    t = mc_cfg(c)
    t = t.replace("SPECIFICATION Spec", "SPECIFICATION SimSpec")
    t = t.replace("VIEW View\n", "")
    t = re.sub(r"INVARIANTS .*\n", "", t)
    t = re.sub(r"PROPERTIES .*\n", "", t)
    return t


DATA_RULES = {"Node.log", "InServiceHoldAcked", "ReadData", "ReadFresh"}


def explain_stale_rmw(evs, f):
    """the recorded (not repaired) defect of C07 on harness L1, dense layout only: 'stale-rmw' iff the
    failure is purely about data and every acknowledged write an in-service replica lacks (a) was
    applied while that replica was detached and (b) lies in a 4 KiB block into which a sub-block
    write went while the replica was attached again but not yet synced (its read-modify-write filled
    the rest of the block from its own stale chain, and that head block shadows the synced data)"""
    if not evs[0]["a"].get("dense") or not set(f["rules"]) <= DATA_RULES:
        return None
    rec = [e for e in evs if e["seq"] == f["seq"] and not e.get("partial")]
    if not rec:
        return "unexplained"
    rec = rec[0]
    writes = [e for e in evs if e["ev"] == "Write" and e["res"] == "ok" and e["seq"] < f["seq"]]
    acked = {e["a"]["w"] for e in writes}
    reached = {e["a"]["w"]: set(e.get("touched") or []) for e in writes}
    seqof = {e["a"]["w"]: e["seq"] for e in writes}
    bad = False
    for a, mode in rec["ctl"]["replicas"].items():
        if mode not in ("RW", "WO"):
            continue
        have = set(rec["nodes"][a]["log"])
        if mode == "WO":
            # before the copy a rebuilding replica legitimately lacks what it missed; the rule that
            # failed compared it with the specification's expectation, so only judge after a copy
            if not any(e["ev"] == "RebuildCopy" and e["a"].get("a") == a and e["res"] == "ok" and e["seq"] <= f["seq"]
                       for e in evs):
                continue
        for m in acked - have:
            detached = a not in reached[m]
            later = [w for w in acked if w != m and (w - 1) // 8 == (m - 1) // 8 and a in reached[w] and seqof[w] > seqof[m]]
            if not (detached and later):
                return "unexplained"
            bad = True
    return "stale-rmw" if bad else "unexplained"


def ops_upto(evs, seq):
    """scenario operations that reproduce the recorded events up to record seq"""
    ops, need_race = [], False
    for e in evs[1:]:
        if e["ev"] == "Hang":
            if e["seq"] <= seq and (e.get("a") or {}).get("opjson"):
                ops.append(e["a"]["opjson"])
            continue
        if e.get("partial"):
            need_race = need_race or e["seq"] <= seq
            continue
        if e["ev"] == "Noop" and any((e.get("a") or {}).get(x) for x in ("race", "addrace", "snaprace")):
            if e["seq"] <= seq or need_race:
                ops.append(event_to_op(e))
            need_race = False
            continue
        if e["seq"] <= seq and not (e["ev"] == "ReplicaRestart" and e["a"].get("cause")):
            ops.append(event_to_op(e))
    return ops


def event_to_op(e):
    a = e.get("a") or {}
    ev = e["ev"]
    if ev == "Noop" and a.get("race"):
        return {"ev": "Race", "a": a["race"], "k": a.get("k", 6)}
    if ev == "Noop" and a.get("snaprace"):
        return {"ev": "SnapRace", "name": a["snaprace"], "k": a.get("k", 6)}
    if ev == "Noop" and a.get("snapremove"):
        return {"ev": "SnapRemove", "name": a["snapremove"], "a": a["victim"]}
    if ev == "Noop" and a.get("addrace"):
        return {"ev": "AddRace", "a": a["addrace"], "k": a.get("k", 12)}
    m = {"VerifyRebuild": "Verify", "RemoveReplica": "Remove", "AddCheck": "Add", "AddCommit": "AddEnd"}
    op = {"ev": m.get(ev, ev)}
    if ev == "AddCheck" and a.get("gated"):
        op["ev"] = "AddBegin"
    if ev == "Register":
        a = {k: v for k, v in a.items() if k != "rev"}
    if "a" in a:
        op["a"] = a["a"]
    for k in ("sf", "af", "cf", "name", "mode", "src", "rev", "cs"):
        if k in a and a[k]:
            op[k] = a[k]
    if ev in IO_EVS and a.get("oob"):
        return {"ev": ev + "OOB", "kind": a["oob"]}
    if ev == "Resize":
        return {"ev": "Resize", "F": a.get("F", [])}
    if ev == "Revert":
        return {"ev": "Revert", "name": a["name"], "F": a.get("F", [])}
    if ev in IO_EVS:
        op["F"] = a.get("A", [])
        if a.get("variant"):
            op["mode"] = a["variant"]
    elif ev in ("Add", "Snapshot", "AddCommit"):
        op["F"] = [x for x in a.get("S", []) if x != "modefail"]
        if "modefail" in a.get("S", []):
            op["mf"] = True
    elif ev == "VerifyRebuild":
        op["F"] = a.get("F", [])
    return op


def nontrivial(prop, evs):
    names = [e["ev"] + ":" + e["res"] for e in evs]
    need = {"C02": ("Write:ok", "Write:failed"), "C03": ("Write:failed", "SetMode:ok", "RemoveReplica:ok"),
            "C04": ("Read:ok",), "C05": ("Write:ok", "Read:ok", "MonitorRun:ok"), "C09": ("Start:ok",),
            "C13": ("Snapshot:ok", "VerifyRebuild:ok"), "C18": ("Add:ok", "RemoveReplica:ok"),
            "C07": ("VerifyRebuild:ok",), "C01": ("Write:failed", "Read:failed"), "C16": ("Resize:ok",)}[prop]
    return any(n in need for n in names)


def run(prop, tier, seed, replay=None, embed=False):
    """embed: called by another family's check (C07): no model checking, no evidence file, no
    verdict lines -- returns (violations, known, stats)"""
    t0 = time.time()
    quick = tier == "quick"
    build_harness(["ctrldrv"])
    work = scratch("ctl.")
    assumptions = [
        "quorum-type replicas are not used (quorumReplicaCount = 0)",
        "replica nodes are real replica.Server instances in the driver process behind the real REST router and rpc server; faults are injected in thin wrappers in front of them",
        "the controller's monitoring goroutines are held at the verif gate: the scenario decides when each runs",
        "forcing a replica to RW through PUT /v1/replicas is an operator override outside the model",
        "rpc read/write deadlines shortened to 1.5 s through types.RPCReadTimeout/RPCWriteTimeout",
    ]
    try:
        mc_states = mc_trans = 0
        mc_runs = []
        if replay is None and not embed and not os.environ.get("VERIF_DEV_SKIP_MC"):
            for c in MC[prop]["quick" if quick else "thorough"]:
                r = run_tlc_mc("MCController", mc_cfg(c), timeout=1200 if quick else 10800)
                if not r["ok"]:
                    raise HarnessError("the specification itself violates %s in the bounded model:\n%s"
                                       % (r["violated"], r["out"][-6000:]))
                mc_states += r["distinct"]
                mc_trans += r["generated"]
                mc_runs.append(dict(constants={k: (sorted(v, key=str) if isinstance(v, (set, frozenset)) else v)
                                               for k, v in c.items()},
                                    distinct=r["distinct"], generated=r["generated"], depth=r["depth"],
                                    wall_s=round(r["wall"], 1)))
                log("[mc] %s distinct=%d generated=%d %.0fs" % (prop, r["distinct"], r["generated"], r["wall"]))
            if prop in ("C02", "C03"):
                # the majority / quorum arithmetic for every number of replicas (Apalache, unbounded
                # integers); the control invariant (>= instead of >) must be refuted
                if run_apalache("QuorumArith", "Inv") != "ok" or run_apalache("QuorumArith", "WrongGE") != "violated":
                    raise HarnessError("QuorumArith.tla: unexpected Apalache verdict")
                mc_runs.append(dict(module="QuorumArith", tool="apalache", invariants="Intersect NonEmpty HalfFails "
                                    "QuorumMoreThanHalf MinorityNoQuorum VariantDiffers", domain="all n, rf (unbounded integers)",
                                    control="WrongGE refuted"))
            if not quick:
                for mut in MC[prop]["mutants"]:
                    bug, expect = mut[0], mut[1]
                    c = dict(MC[prop]["quick"][-1])
                    if len(mut) > 2:
                        c.update(mut[2])      # (a base configuration in which the mutant's effect is reachable)
                    c["Bug"] = {bug}
                    c["Ops"] = set(c["Ops"]) | {"read", "seterr", "snapshot", "snapfail"}
                    c["MaxW"] = 2
                    r = run_tlc_mc("MCController", mc_cfg(c), timeout=3600)
                    if r["ok"] or not re.search(expect, r["violated"] or ""):
                        raise HarnessError("self-check failed: mutant %s was not refuted (%s)" % (bug, r["violated"]))
                    mc_runs.append(dict(mutant=bug, refuted_by=r["violated"]))
                    log("[mc] mutant %s refuted by %s" % (bug, r["violated"]))

        # ---- execution on the real code
        parts, cmds = [], []
        if replay is not None:
            rp = json.load(open(replay))
            scf = os.path.join(work, "replay.ndjson")
            with open(scf, "w") as f:
                f.write(json.dumps(rp["scenario"]) + "\n")
            os.makedirs(os.path.join(work, "p0"))
            cmds = [[os.path.join(BUILD, "ctrldrv"), "-in", scf, "-out", os.path.join(work, "t0.ndjson"),
                     "-work", os.path.join(work, "p0"), "-worker", str(1 + int(os.environ.get("VERIF_WORKER_OFFSET", "0")))]]
            parts = [os.path.join(work, "t0.ndjson")]
        else:
            nproc = min(NCPU * 2, 32)
            per = 4 if quick else 24
            length = 16 if quick else 30
            walk_files = {}
            directed = [l for l in open(os.path.join(VERIF, "scenarios", "controller_directed.ndjson")).read().split("\n") if l.strip()]
            if not embed:
                # scenarios generated by the specification: random walks of MCController per RF
                nw = 4 if quick else 60
                for j, rf_ in enumerate((2, 3)):
                    beh = run_tlc_simulate("MCController", sim_cfg(rf_), nw, 22 if quick else 34, seed * 10 + rf_)
                    scs = walks_to_scenarios(beh, rf_, 500000 + rf_ * 1000)
                    wf = os.path.join(work, "walks_rf%d.ndjson" % rf_)
                    with open(wf, "w") as f:
                        for sc in scs:
                            f.write(json.dumps(sc) + "\n")
                    if scs:
                        walk_files[20 + j] = wf     # two of the workers also run the walks
            if embed:
                nproc, per = (12, 1) if quick else (24, 8)
                if prop in ("C01", "C16"):
                    nproc, per = (6, 1) if quick else (12, 6)
                if prop == "C19":
                    # the clone fixture: one hand-written execution per clone status (no generator)
                    directed = [l for l in open(os.path.join(VERIF, "scenarios", "controller_clone.ndjson")).read().split("\n") if l.strip()]
                    nproc, per = len(directed), 0
            for i in range(nproc):
                pdir = os.path.join(work, "p%d" % i)
                os.makedirs(pdir)
                out = os.path.join(work, "t%d.ndjson" % i)
                parts.append(out)
                rf = [1, 2, 2, 3, 2, 3, 2, 3][i % 8] if quick else [1, 2, 3, 2, 3, 4, 5, 3][i % 8]
                if embed:
                    rf = [3, 3, 2, 3][i % 4] if prop == "C07" else ([2, 3, 3][i % 3] if prop == "C16" else [1, 2, 3][i % 3])
                if embed and prop == "C19":
                    rf = 1
                cmd = [os.path.join(BUILD, "ctrldrv"), "-out", out, "-work", pdir, "-gen", str(per),
                       "-len", str(length), "-seed", str(seed * 1000 + i), "-base", str(i * 1000),
                       "-profile", os.environ.get("VERIF_DEV_PROFILE") or PROFILE[prop], "-rf", str(rf),
                       # embedded parts get their own loopback subnets (127.(10+worker).x)
                       "-worker", str(i + 1 + ({"C01": 40, "C07": 60, "C16": 90, "C19": 130}.get(prop, 0) if embed else 0)
                                      + int(os.environ.get("VERIF_WORKER_OFFSET", "0")))]
                extra = []
                if not embed or prop == "C19":   # hand-written / counterexample-derived interleavings, spread over the workers
                    extra += [l for k, l in enumerate(directed) if k % nproc == i]
                if i in walk_files:           # random walks of MCController
                    extra += [l for l in open(walk_files[i]).read().split("\n") if l.strip()]
                if extra:
                    xf = os.path.join(work, "in%d.ndjson" % i)
                    open(xf, "w").write("\n".join(extra) + "\n")
                    cmd += ["-in", xf]
                cmds.append(cmd)
        res = run_parallel(cmds, timeout=900 if quick else 7200)
        for (rc, out), c in zip(res, cmds):
            if rc == 3:
                log("[exec] a driver recorded a hang: " + out[-200:].strip())
                continue
            if rc != 0:
                raise HarnessError("driver failed rc=%s: %s\n%s" % (rc, " ".join(c), out[-3000:]))

        # ---- trace validation, one TLC run per replication factor
        by_rf, by_t = {}, {}
        for p in parts:
            with open(p) as f:
                cur = None
                for line in f:
                    e = json.loads(line)
                    if e["ev"] == "Init":
                        cur = e["a"]["rf"]
                    by_rf.setdefault(cur, []).append(line)
                    by_t.setdefault(e["t"], []).append(e)
        failed, records, traces = [], 0, 0
        for rf, lines in sorted(by_rf.items()):
            tf = os.path.join(work, "trace_rf%d.ndjson" % rf)
            with open(tf, "w") as f:
                f.writelines(lines)
            result = run_tlc_trace("ControllerTrace",
                                   {"RF": rf, "Addr": s_(addrs(rf + 1)), "MaxW": 1000, "Bug": "{}"}, tf,
                                   timeout=1200 if quick else 5400, invariants=("Finish",))
            if result["consumed"] != result["records"]:
                raise HarnessError("trace validation consumed %d of %d records" % (result["consumed"], result["records"]))
            failed += result["failed"]
            records += result["records"]
            traces += result["traces"]

        violations, known, others, unexplained = [], [], [], []
        for f_ in failed:
            if "SpecNotEnabled" in f_["rules"]:
                # the specification cannot take the recorded step at all: inconclusive for this
                # execution (exit 2 at the end unless another execution shows a violation)
                unexplained.append(f_)
                continue
            f_["after_rebuild"] = any(e["ev"] == "VerifyRebuild" and e["res"] == "ok" and e["seq"] < f_["seq"]
                                      for e in by_t[f_["t"]])
            props = attribute(f_)
            if embed and prop == "C19":
                # every execution of the clone fixture is about what the controller does with a clone status
                props.add("C19")
            sig = dict(rule=sorted(f_["rules"]), site=f_["ev"], context=context_of(f_))
            x = explain_stale_rmw(by_t[f_["t"]], f_)
            if x:
                sig["context"] = x
                if x == "stale-rmw":
                    props.add("C07")
            if prop not in props:
                others.append(dict(t=f_["t"], seq=f_["seq"], sig=sig, properties=sorted(props)))
                continue
            evs = by_t[f_["t"]]
            init = evs[0]
            scenario = dict(id=f_["t"], rf=init["a"]["rf"], n=init["a"]["n"], src="replay", layer="L1",
                            dense=bool(init["a"].get("dense")),
                            ops=ops_upto(evs, f_["seq"]))
            k = match_known(prop, sig)
            rec = dict(property=prop, signature=sig, failed_record=f_, scenario=scenario)
            if k:
                known.append((k, rec))
            else:
                path = save_replay(prop, "%s-%s" % (tier, fingerprint(scenario)), rec)
                violations.append((path, rec))

        if embed:
            if unexplained and not violations:
                raise HarnessError("specification has no step for %d record(s), first: %s"
                                   % (len(unexplained), json.dumps(unexplained[0])[:3000]))
            promos = sum(1 for evs in by_t.values() for e in evs if e["ev"] == "VerifyRebuild" and e["res"] == "ok")
            races = sum(1 for evs in by_t.values() for e in evs if e["ev"] == "Noop" and (e.get("a") or {}).get("addrace"))
            oob = sum(1 for evs in by_t.values() for e in evs if (e.get("a") or {}).get("oob"))
            grows = sum(1 for evs in by_t.values() for e in evs if e["ev"] == "Resize" and e["res"] == "ok")
            return violations, known, dict(executions=traces, records=records, promotions=promos, adds_under_writes=races,
                                           out_of_range_ios=oob, controller_grows=grows, other_property_failures=len(others))
        fps, nontriv, samples, evcount = set(), set(), [], {}
        for t, evs in by_t.items():
            ops = ops_upto(evs, 1 << 60)
            fp = fingerprint(ops)
            fps.add(fp)
            if nontrivial(prop, evs):
                nontriv.add(fp)
                if len(samples) < 3:
                    samples.append(dict(init=evs[0]["a"], ops=ops[:30], results=[e["res"] for e in evs[1:31]]))
            for e in evs:
                k = e["ev"] + ":" + e["res"]
                evcount[k] = evcount.get(k, 0) + 1
        coverage = dict(
            states=mc_states or (1 if replay else 0), transitions=mc_trans or (1 if replay else 0),
            traces_validated_against_impl=traces,
            samples=samples or [dict(note="no non-trivial sample")],
            evaluations=traces, distinct_nontrivial=len(nontriv),
            rule="an execution = one seeded scenario (profile '%s', RF 1..%d) run on the real Controller with in-process replica nodes; distinct = distinct operation sequence; non-trivial = contains a successful operation of the property's family" % (PROFILE[prop], 3 if quick else 5),
            records_validated=records, events_by_result=evcount, model_checking_runs=mc_runs,
            failures_in_scope=len(violations) + len(known), failures_other_properties=others[:20], exhaustive=False)
        write_evidence(prop, tier, seed, "model_checking", coverage, assumptions, time.time() - t0, len(violations))
        seen = set()
        for k, rec in known:
            if k.get("what") not in seen:
                print("KNOWN-FINDING: property=%s %s" % (prop, k.get("what", "")))
                seen.add(k.get("what"))
        for path, rec in violations:
            print("VIOLATION property=%s replay=%s" % (prop, path))
            s = rec["signature"]
            print("  rule=%s site=%s context=%s" % (",".join(s["rule"]), s["site"], s["context"]))
        log("[%s] %s: %d executions, %d records, %d violations, %d known, %d other-property failures, %.0fs" % (
            prop, tier, traces, records, len(violations), len(known), len(others), time.time() - t0))
        for o in others[:4]:
            log("[other-property failure] t=%s seq=%s %s -> %s" % (o["t"], o["seq"], json.dumps(o["sig"]), o["properties"]))
        if unexplained and not violations:
            raise HarnessError("specification has no step for %d record(s), first: %s"
                               % (len(unexplained), json.dumps(unexplained[0])[:3000]))
        return 1 if violations else 0
    finally:
        shutil.rmtree(work, ignore_errors=True)
