"""Controller family: C02 C03 C04 C05 C09 C13 C18 (DESIGN.md 3.3, 5).
(A) TLC model-checks Controller.tla (bounded instance MCController),
(B) the L1 driver (real Controller + real remote/rpc + in-process replica nodes with fault
    injection, monitor goroutines held at the verif gate) executes seeded scenarios,
(C) TLC validates every recorded execution against ControllerTrace.tla, one run per
    replication factor."""
import json, os, re, shutil, sys, time
from vlib import *

FAMILY = ["C02", "C03", "C04", "C05", "C09", "C13", "C18"]

INVS = ("TypeOK RoFresh CountMatches AtMostRF OneWO InServiceHoldAcked SignalAfterMajority SignalsMax "
        "CheckpointAgreed SnapSamePoint")
PROPS_ACT = ("ReadFresh WriteGate AckMajority FailedDetached RemovedSilent OnlySignalledStarts SnapNeedsAllRW "
             "CheckpointIsLatestWhenSet")


def s_(v):
    if isinstance(v, (set, frozenset, list, tuple)):
        return "{" + ", ".join(s_(x) for x in sorted(v, key=str)) + "}"
    if isinstance(v, bool):
        return "TRUE" if v else "FALSE"
    if isinstance(v, str):
        return '"%s"' % v
    return str(v)


def mc_cfg(c):
    t = "SPECIFICATION Spec\nCONSTANTS\n"
    for k in ["RF", "Addr", "MaxW", "Bug", "MaxSnap", "InitRevs", "Ops"]:
        t += "  %s = %s\n" % (k, s_(c[k]))
    t += "CONSTRAINT Bound\nVIEW View\nINVARIANTS %s\nPROPERTIES %s\nCHECK_DEADLOCK FALSE\n" % (INVS, PROPS_ACT)
    return t


def addrs(n):
    return {"a%d" % i for i in range(1, n + 1)}


def cfgd(**kw):
    d = dict(RF=2, Addr=addrs(3), MaxW=1, Bug=set(), MaxSnap=1, InitRevs={1}, Ops=set())
    d.update(kw)
    return d


# exhaustive configurations (sized from measured runs, see DESIGN.md 6) and mutants
MC = {
    "C02": dict(quick=[cfgd(RF=1, Addr=addrs(2), MaxW=2, Ops={"read"}), cfgd(MaxW=1, Ops=set())],
                thorough=[cfgd(MaxW=2, Ops={"read"}), cfgd(RF=3, Addr=addrs(4), MaxW=1, Ops=set())],
                mutants=[("majorityGE", "AckMajority|InServiceHoldAcked"), ("keepFailedWriters", "FailedDetached|InServiceHoldAcked")]),
    "C03": dict(quick=[cfgd(RF=1, Addr=addrs(2), MaxW=1, Ops={"seterr", "sync"}), cfgd(MaxW=1, Ops={"seterr"})],
                thorough=[cfgd(MaxW=1, Ops={"seterr", "sync", "snapshot", "snapfail"}),
                          cfgd(RF=3, Addr=addrs(4), MaxW=1, Ops={"seterr"})],
                mutants=[("skipRoUpdate", "RoFresh|CountMatches|WriteGate"), ("writeIgnoresRO", "WriteGate")]),
    "C04": dict(quick=[cfgd(RF=1, Addr=addrs(2), MaxW=2, Ops={"read"}), cfgd(MaxW=1, Ops={"read"})],
                thorough=[cfgd(MaxW=2, Ops={"read", "seterr"})],
                mutants=[("readersIncludeWO", "ReadFresh")]),
    "C05": dict(quick=[cfgd(RF=1, Addr=addrs(2), MaxW=2, Ops={"read", "seterr"}), cfgd(MaxW=1, Ops={"read"})],
                thorough=[cfgd(MaxW=2, Ops={"read", "seterr", "sync"})],
                mutants=[("keepFailedWriters", "FailedDetached|InServiceHoldAcked")]),
    "C09": dict(quick=[cfgd(MaxW=1, Ops={"sigfail", "createfail"})],
                thorough=[cfgd(MaxW=2, Ops={"sigfail", "createfail", "rebuilding"}),
                          cfgd(RF=3, Addr=addrs(4), MaxW=1, Ops={"sigfail"})],
                mutants=[("electRegistrant", "SignalsMax")]),
    "C13": dict(quick=[cfgd(RF=1, Addr=addrs(2), MaxW=1, MaxSnap=1, Ops={"snapshot", "snapfail", "cpfail"})],
                thorough=[cfgd(RF=1, Addr=addrs(2), MaxW=1, MaxSnap=2, Ops={"snapshot", "snapfail", "cpfail"}),
                          cfgd(MaxW=1, MaxSnap=2, Ops={"snapshot"})],
                mutants=[("snapNoGate", "SnapNeedsAllRW")]),
    "C18": dict(quick=[cfgd(RF=1, Addr=addrs(2), MaxW=1, Ops={"seterr", "createfail"}), cfgd(MaxW=1, Ops={"seterr"})],
                thorough=[cfgd(MaxW=1, Ops={"seterr", "createfail", "read"}),
                          cfgd(RF=3, Addr=addrs(4), MaxW=1, Ops={"seterr"})],
                mutants=[("addNoSecondRFCheck", "AtMostRF")]),
}

PROFILE = {"C02": "mixed", "C03": "membership", "C04": "mixed", "C05": "mixed", "C09": "bootstrap",
           "C13": "snapshot", "C18": "membership"}

IO_EVS = {"Write", "Sync", "Unmap", "Read"}
MEMBER_RULES = {"Replicas", "NoDup", "ListsAgree", "ReadersAreRW", "WritersAreNonErr", "RWCount", "CountMatches",
                "AtMostRF", "OneWO", "RemovedSilent", "Monitors"}


def attribute(f):
    ev, rules, p = f["ev"], set(f["rules"]), set()
    if "Result" in rules:
        p |= {"Write": {"C02", "C05"}, "Sync": {"C02", "C05"}, "Unmap": {"C02", "C05"}, "Read": {"C04", "C05"},
              "Register": {"C09"}, "Start": {"C09"}, "Snapshot": {"C13"}, "Add": {"C18"}, "AddCheck": {"C18"}, "AddCommit": {"C18"},
              "VerifyRebuild": {"C18", "C03"}, "RemoveReplica": {"C18"}, "SetMode": {"C18"}}.get(ev, {"C18"})
        if ev in ("Write", "Sync", "Unmap"):
            p.add("C03")
    if rules & MEMBER_RULES:
        p.add("C18")
        if ev in IO_EVS:
            p.add("C05")
    if rules & {"ReadOnly", "RoFresh", "WriteGate"}:
        p.add("C03")
    if rules & {"InServiceHoldAcked", "Node.log"}:
        p.add("C02")
        if ev in IO_EVS:
            p.add("C05")
    if rules & {"Touched"}:
        p |= {"C03", "C05"} if ev != "Read" else {"C04", "C05"}
    if rules & {"FailedDetached"}:
        p |= {"C02", "C05"}
        if ev == "Read":
            p.add("C04")
    if ev == "Read" and rules & {"Replicas", "Result", "Touched"}:
        p.add("C04")
    if rules & {"ReadData", "ReadFresh", "ReadersAreRW"}:
        p.add("C04")
    if rules & {"Signals", "SignalAfterMajority", "SignalsMax"}:
        p.add("C09")
    if rules & {"Checkpoint", "CheckpointAgreed", "SnapSamePoint", "SnapNeedsAllRW", "Node.cp", "Node.snaps"}:
        p.add("C13")
    if rules & {"Node.rev"}:
        p |= {"C02", "C18"}
    if rules & {"Node.state", "Node.mode"}:
        p.add("C18")
    if "Hang" in rules:
        p |= {"C05", "C18"}
    if "Panic" in rules:
        p |= {"C14"}        # reported by the management-API family
    return p


def context_of(f):
    ev, a, sp = f["ev"], f.get("a", {}), f["spec"]
    ctx = []
    pre = sp.get("pre", {})
    if ev == "SetMode":
        ctx.append("mode=%s" % a.get("mode"))
    if ev == "Snapshot" and a.get("S"):
        ctx.append("replica-snapshot-failed")
    if ev == "Register":
        if a.get("sf"):
            ctx.append("signal-fails")
        if a.get("af"):
            ctx.append("probe-fails")
        regs = {k: v for k, v in sp.get("reg", {}).items() if v}
        if regs and a.get("rev", 0) < max(regs.values()):
            ctx.append("registrant-not-max")
    if ev in IO_EVS:
        ctx.append("armed=%d" % len(a.get("A", [])))
        ctx.append("prero=%s" % str(sp.get("prero")).lower())
    if ev in ("Add", "AddCheck", "AddCommit"):
        n = len([m for m in pre.values() if m != "NONE"])
        ctx.append("members=%d" % n)
    return ",".join(ctx)


def event_to_op(e):
    a = e.get("a") or {}
    ev = e["ev"]
    m = {"VerifyRebuild": "Verify", "RemoveReplica": "Remove", "AddCheck": "Add", "AddCommit": "AddEnd"}
    op = {"ev": m.get(ev, ev)}
    if ev == "AddCheck" and a.get("gated"):
        op["ev"] = "AddBegin"
    if ev == "Register":
        a = {k: v for k, v in a.items() if k != "rev"}
    if "a" in a:
        op["a"] = a["a"]
    for k in ("sf", "af", "cf", "name", "mode", "src", "rev"):
        if k in a and a[k]:
            op[k] = a[k]
    if ev in IO_EVS:
        op["F"] = a.get("A", [])
    elif ev in ("Add", "Snapshot", "AddCommit"):
        op["F"] = a.get("S", [])
    elif ev == "VerifyRebuild":
        op["F"] = a.get("F", [])
    return op


def nontrivial(prop, evs):
    names = [e["ev"] + ":" + e["res"] for e in evs]
    need = {"C02": ("Write:ok", "Write:failed"), "C03": ("Write:failed", "SetMode:ok", "RemoveReplica:ok"),
            "C04": ("Read:ok",), "C05": ("Write:ok", "Read:ok", "MonitorRun:ok"), "C09": ("Start:ok",),
            "C13": ("Snapshot:ok", "VerifyRebuild:ok"), "C18": ("Add:ok", "RemoveReplica:ok")}[prop]
    return any(n in need for n in names)


def run(prop, tier, seed, replay=None):
    t0 = time.time()
    quick = tier == "quick"
    build_harness(["ctrldrv"])
    work = scratch("ctl.")
    assumptions = [
        "quorum-type replicas are not used (quorumReplicaCount = 0)",
        "replica nodes are real replica.Server instances in the driver process behind the real REST router and rpc server; faults are injected in thin wrappers in front of them",
        "the controller's monitoring goroutines are held at the verif gate: the scenario decides when each runs",
        "forcing a replica to RW through PUT /v1/replicas is an operator override outside the model",
        "rpc read/write deadlines shortened to 0.7 s through types.RPCReadTimeout/RPCWriteTimeout",
    ]
    try:
        mc_states = mc_trans = 0
        mc_runs = []
        if replay is None and not os.environ.get("VERIF_DEV_SKIP_MC"):
            for c in MC[prop]["quick" if quick else "thorough"]:
                r = run_tlc_mc("MCController", mc_cfg(c), timeout=1200 if quick else 10800)
                if not r["ok"]:
                    raise HarnessError("the specification itself violates %s in the bounded model:\n%s"
                                       % (r["violated"], r["out"][-6000:]))
                mc_states += r["distinct"]
                mc_trans += r["generated"]
                mc_runs.append(dict(constants={k: (sorted(v, key=str) if isinstance(v, (set, frozenset)) else v)
                                               for k, v in c.items()},
                                    distinct=r["distinct"], generated=r["generated"], depth=r["depth"],
                                    wall_s=round(r["wall"], 1)))
                log("[mc] %s distinct=%d generated=%d %.0fs" % (prop, r["distinct"], r["generated"], r["wall"]))
            if not quick:
                for bug, expect in MC[prop]["mutants"]:
                    c = dict(MC[prop]["quick"][-1])
                    c["Bug"] = {bug}
                    c["Ops"] = set(c["Ops"]) | {"read", "seterr", "snapshot", "snapfail"}
                    c["MaxW"] = 2
                    r = run_tlc_mc("MCController", mc_cfg(c), timeout=3600)
                    if r["ok"] or not re.search(expect, r["violated"] or ""):
                        raise HarnessError("self-check failed: mutant %s was not refuted (%s)" % (bug, r["violated"]))
                    mc_runs.append(dict(mutant=bug, refuted_by=r["violated"]))
                    log("[mc] mutant %s refuted by %s" % (bug, r["violated"]))

        # ---- execution on the real code
        parts, cmds = [], []
        if replay is not None:
            rp = json.load(open(replay))
            scf = os.path.join(work, "replay.ndjson")
            with open(scf, "w") as f:
                f.write(json.dumps(rp["scenario"]) + "\n")
            os.makedirs(os.path.join(work, "p0"))
            cmds = [[os.path.join(BUILD, "ctrldrv"), "-in", scf, "-out", os.path.join(work, "t0.ndjson"),
                     "-work", os.path.join(work, "p0"), "-worker", "1"]]
            parts = [os.path.join(work, "t0.ndjson")]
        else:
            nproc = min(NCPU * 2, 32)
            per = 2 if quick else 24
            length = 16 if quick else 30
            for i in range(nproc):
                pdir = os.path.join(work, "p%d" % i)
                os.makedirs(pdir)
                out = os.path.join(work, "t%d.ndjson" % i)
                parts.append(out)
                rf = [1, 2, 2, 3, 2, 3, 2, 3][i % 8] if quick else [1, 2, 3, 2, 3, 4, 5, 3][i % 8]
                cmd = [os.path.join(BUILD, "ctrldrv"), "-out", out, "-work", pdir, "-gen", str(per),
                       "-len", str(length), "-seed", str(seed * 1000 + i), "-base", str(i * 1000),
                       "-profile", PROFILE[prop], "-rf", str(rf), "-worker", str(i + 1)]
                if i == 0:      # hand-written / counterexample-derived interleavings
                    cmd += ["-in", os.path.join(VERIF, "scenarios", "controller_directed.ndjson")]
                cmds.append(cmd)
        res = run_parallel(cmds, timeout=900 if quick else 7200)
        for (rc, out), c in zip(res, cmds):
            if rc == 3:
                log("[exec] a driver recorded a hang: " + out[-200:].strip())
                continue
            if rc != 0:
                raise HarnessError("driver failed rc=%s: %s\n%s" % (rc, " ".join(c), out[-3000:]))

        # ---- trace validation, one TLC run per replication factor
        by_rf, by_t = {}, {}
        for p in parts:
            with open(p) as f:
                cur = None
                for line in f:
                    e = json.loads(line)
                    if e["ev"] == "Init":
                        cur = e["a"]["rf"]
                    by_rf.setdefault(cur, []).append(line)
                    by_t.setdefault(e["t"], []).append(e)
        failed, records, traces = [], 0, 0
        for rf, lines in sorted(by_rf.items()):
            tf = os.path.join(work, "trace_rf%d.ndjson" % rf)
            with open(tf, "w") as f:
                f.writelines(lines)
            result = run_tlc_trace("ControllerTrace",
                                   {"RF": rf, "Addr": s_(addrs(rf + 1)), "MaxW": 1000, "Bug": "{}"}, tf,
                                   timeout=1200 if quick else 5400, invariants=("Finish",))
            if result["consumed"] != result["records"]:
                raise HarnessError("trace validation consumed %d of %d records" % (result["consumed"], result["records"]))
            failed += result["failed"]
            records += result["records"]
            traces += result["traces"]

        violations, known, others = [], [], []
        for f_ in failed:
            if "SpecNotEnabled" in f_["rules"]:
                raise HarnessError("specification has no step for record %s" % json.dumps(f_)[:3000])
            props = attribute(f_)
            sig = dict(rule=sorted(f_["rules"]), site=f_["ev"], context=context_of(f_))
            if prop not in props:
                others.append(dict(t=f_["t"], seq=f_["seq"], sig=sig, properties=sorted(props)))
                continue
            evs = by_t[f_["t"]]
            init = evs[0]
            scenario = dict(id=f_["t"], rf=init["a"]["rf"], n=init["a"]["n"], src="replay",
                            ops=[event_to_op(e) for e in evs[1:] if e["seq"] <= f_["seq"]
                                 and not (e["ev"] == "ReplicaRestart" and e["a"].get("cause"))])
            k = match_known(prop, sig)
            rec = dict(property=prop, signature=sig, failed_record=f_, scenario=scenario)
            if k:
                known.append((k, rec))
            else:
                path = save_replay(prop, "%s-%s" % (tier, fingerprint(scenario)), rec)
                violations.append((path, rec))

        fps, nontriv, samples, evcount = set(), set(), [], {}
        for t, evs in by_t.items():
            ops = [event_to_op(e) for e in evs[1:]]
            fp = fingerprint(ops)
            fps.add(fp)
            if nontrivial(prop, evs):
                nontriv.add(fp)
                if len(samples) < 3:
                    samples.append(dict(init=evs[0]["a"], ops=ops[:30], results=[e["res"] for e in evs[1:31]]))
            for e in evs:
                k = e["ev"] + ":" + e["res"]
                evcount[k] = evcount.get(k, 0) + 1
        coverage = dict(
            states=mc_states or (1 if replay else 0), transitions=mc_trans or (1 if replay else 0),
            traces_validated_against_impl=traces,
            samples=samples or [dict(note="no non-trivial sample")],
            evaluations=traces, distinct_nontrivial=len(nontriv),
            rule="an execution = one seeded scenario (profile '%s', RF 1..%d) run on the real Controller with in-process replica nodes; distinct = distinct operation sequence; non-trivial = contains a successful operation of the property's family" % (PROFILE[prop], 3 if quick else 5),
            records_validated=records, events_by_result=evcount, model_checking_runs=mc_runs,
            failures_in_scope=len(violations) + len(known), failures_other_properties=others[:20], exhaustive=False)
        write_evidence(prop, tier, seed, "model_checking", coverage, assumptions, time.time() - t0, len(violations))
        seen = set()
        for k, rec in known:
            if k.get("what") not in seen:
                print("KNOWN-FINDING: property=%s %s" % (prop, k.get("what", "")))
                seen.add(k.get("what"))
        for path, rec in violations:
            print("VIOLATION property=%s replay=%s" % (prop, path))
            s = rec["signature"]
            print("  rule=%s site=%s context=%s" % (",".join(s["rule"]), s["site"], s["context"]))
        log("[%s] %s: %d executions, %d records, %d violations, %d known, %d other-property failures, %.0fs" % (
            prop, tier, traces, records, len(violations), len(known), len(others), time.time() - t0))
        return 1 if violations else 0
    finally:
        shutil.rmtree(work, ignore_errors=True)
