"""File-system family: C08 (DESIGN.md 3.2, 5).
For every sampled (pre-state, operation): the operation's system calls are recorded with strace;
(A/C) TLC interprets the recorded sequence with the generic file-system actions of ReplicaFS.tla
      and evaluates CrashSafe after every prefix, Durable and NoSilentDamage at the result;
(B)   the real process is killed at every boundary between two directory-changing calls and
      every such call is made to fail with ENOSPC / EIO (strace injection); a fresh checker
      process reopens the directory with the real code.  Verdicts come from the real reopen."""
import json, os, re, shutil, subprocess, sys, time
from concurrent.futures import ThreadPoolExecutor
from vlib import *

FAMILY = ["C08"]

TRACE_SET = "getppid,openat,write,pwrite64,close,renameat,renameat2,linkat,unlinkat,fsync,fdatasync,ftruncate,truncate,fallocate,mkdirat"
MUTATING = {"openat", "write", "pwrite64", "renameat", "linkat", "unlinkat", "truncate", "ftruncate", "fallocate"}

PLAN = {
    "p1": [("snapshot-user", "s9"), ("write", ""), ("resize", "6"), ("setcheckpoint", "none"), ("setrebuilding", ""),
           ("close", ""), ("open", "")],
    "p2": [("snapshot-auto", "s9"), ("revert", "u1"), ("prepareremove", "volume-snap-x1.img"), ("write", ""),
           ("setcheckpoint", "x1"), ("open", "")],
    "p3": [("remove", "x2"), ("revert", "u1"), ("snapshot-user", "s9"), ("prepareremove", "x1"), ("resize", "6"),
           ("close", ""), ("write", "")],
}
QUICK = [("p1", "snapshot-user"), ("p2", "revert"), ("p3", "remove"), ("p1", "setcheckpoint"), ("p2", "write"), ("p1", "resize")]

LINE = re.compile(r"^(\d+)\s+(\w+)\((.*)\)\s+= (-?\d+|\?)(.*)$")
UNFIN = re.compile(r"^(\d+)\s+(\w+)\((.*) <unfinished \.\.\.>$")
RESUM = re.compile(r"^(\d+)\s+<\.\.\. (\w+) resumed>(.*)$")


def norm(p, d):
    if p.startswith(d + "/"):
        return p[len(d) + 1:]
    if p == d:
        return "."
    return p


def parse_strace(path, d):
    """returns (pid of the operating thread, list of calls of that thread) ; call = dict(name,args,ret,err)"""
    pending, calls, main = {}, [], None
    for line in open(path, errors="replace"):
        line = line.rstrip("\n")
        m = UNFIN.match(line)
        if m:
            pending[m.group(1)] = (m.group(2), m.group(3))
            continue
        m = RESUM.match(line)
        if m and m.group(1) in pending:
            name, args = pending.pop(m.group(1))
            line = "%s %s(%s%s" % (m.group(1), name, args, m.group(3).lstrip())
        m = LINE.match(line)
        if not m:
            continue
        pid, name, args, ret, tail = m.groups()
        if name == "getppid" and main is None:
            main = pid
        calls.append(dict(pid=pid, name=name, args=args, ret=ret, fail=(ret.startswith("-") or ret == "?"), tail=tail))
    return main, [c for c in calls if c["pid"] == main]


STR = re.compile(r'"((?:[^"\\]|\\.)*)"')


def unescape(s):
    try:
        return bytes(s, "utf-8").decode("unicode_escape")
    except Exception:
        return s


def meta_of(payload):
    try:
        o = json.loads(payload)
        if "Head" in o:
            return dict(k="meta", head=o.get("Head", ""), parent="")
        return dict(k="meta", head="", parent=o.get("Parent", ""))
    except Exception:
        return dict(k="bad", head="", parent="")


def abstract(calls, d, run):
    """window between the two getppid markers -> abstract events; also the per-call occurrence
    number (for strace's when=) counted from process start"""
    fds, occ, evs, k = {}, {}, [], 0
    window = 0
    for c in calls:
        name = c["name"]
        occ[name] = occ.get(name, 0) + 1
        if name == "getppid":
            window += 1
            continue
        strs = [norm(unescape(x), d) for x in STR.findall(c["args"])]
        if name == "openat" and not c["fail"] and strs:
            fds[c["ret"]] = strs[0]
        if name == "close":
            fds.pop(c["args"].strip(), None)
        if window != 1:
            continue
        ev = None
        first = c["args"].split(",")[0].strip()
        if name == "openat" and strs and ("O_CREAT" in c["args"] or "O_TRUNC" in c["args"]):
            ev = dict(ev="creat", path=strs[0], trunc="O_TRUNC" in c["args"],
                      kind="img" if strs[0].endswith(".img") else "meta")
        elif name == "write" and first in fds:
            p = fds[first]
            if p.endswith(".meta") or p.endswith(".meta.tmp"):
                ev = dict(ev="wmeta", path=p, meta=meta_of(unescape(STR.findall(c["args"])[0]) if STR.findall(c["args"]) else ""))
            else:
                ev = dict(ev="wdata", path=p)
        elif name == "pwrite64" and first in fds:
            ev = dict(ev="wdata", path=fds[first])
        elif name in ("renameat", "renameat2") and len(strs) >= 2:
            ev = dict(ev="rename", path=strs[0], path2=strs[1])
        elif name == "linkat" and len(strs) >= 2:
            ev = dict(ev="link", path=strs[0], path2=strs[1])
        elif name == "unlinkat" and strs:
            ev = dict(ev="unlink", path=strs[0])
        elif name == "truncate" and strs:
            ev = dict(ev="trunc", path=strs[0])
        elif name == "ftruncate" and first in fds:
            ev = dict(ev="trunc", path=fds[first])
        elif name == "fallocate" and first in fds:
            ev = dict(ev="punch", path=fds[first])
        elif name in ("fsync", "fdatasync") and first in fds:
            ev = dict(ev="syncdir" if fds[first] == "." else "syncfile", path=fds[first])
        if ev is None:
            continue
        if ev["path"].startswith("/") and not ev["path"].startswith(d):
            continue
        k += 1
        ev.update(run=run, k=k, ok=not c["fail"], sys=name, when=occ[name])
        for f in ("path2", "meta", "trunc", "kind"):
            ev.setdefault(f, "" if f != "trunc" else False)
        if ev["meta"] == "":
            ev["meta"] = dict(k="bad", head="", parent="")
        evs.append(ev)
    return evs


def listing(d):
    files = {}
    for n in os.listdir(d):
        p = os.path.join(d, n)
        if n.endswith(".img"):
            files[n] = dict(k="img", head="", parent="")
        elif n.endswith(".meta") or n.endswith(".tmp"):
            files[n] = meta_of(open(p, errors="replace").read())
        else:
            files[n] = dict(k="bad", head="", parent="")
    for i, n in enumerate(sorted(files)):
        files[n]["ino"] = i + 1
    return files


def cp(src, dst):
    shutil.rmtree(dst, ignore_errors=True)
    subprocess.run(["cp", "-a", "--sparse=always", src, dst], check=True)


VICTIM = os.path.join(BUILD, "crashvictim")


def run_check(d):
    try:
        p = subprocess.run([VICTIM, "check", d], stdout=subprocess.PIPE, stderr=subprocess.STDOUT, text=True, timeout=60)
    except subprocess.TimeoutExpired:
        # the real open never returns (e.g. a cyclic chain): as unopenable as an error
        return dict(open="checker hung (open did not return in 60 s)", chain=[], size=0, rev=-1, live=[], images={}, flags={}, garbage=[])
    for line in p.stdout.splitlines():
        if line.startswith("CHECK "):
            return json.loads(line[6:])
    return dict(open="checker died: " + p.stdout[-300:], chain=[], size=0, rev=-1, live=[], images={}, flags={}, garbage=[])


def run_victim(d, op, arg, trace_out, inject=None, plain=False, close_after=False):
    cmd = ["strace", "-f", "-s", "4096", "-o", trace_out, "-e", "trace=" + TRACE_SET]
    if inject:
        cmd += ["-e", "inject=" + inject]
    if plain:
        cmd = []
    cmd += [VICTIM, "op", d, op, arg]
    try:
        env = dict(os.environ, VICTIM_CLOSE_AFTER="1") if close_after else None
        p = subprocess.run(cmd, stdout=subprocess.PIPE, stderr=subprocess.STDOUT, text=True, timeout=120, env=env)
    except subprocess.TimeoutExpired:
        return dict(res="hang", err="victim timed out")
    for line in p.stdout.splitlines():
        if line.startswith("RESULT "):
            return json.loads(line[7:])
    if "VICTIM-ERROR" in p.stdout:
        return dict(res="setup-error", err=p.stdout[-300:])
    return dict(res="died", err=p.stdout[-200:])


def chain_heads(chk):
    return list(reversed(chk["chain"]))


def judge(kind, op, before, after, chk, res=None):
    """rules violated by one crash / failed-call outcome (real reopen) -> list of rule names"""
    bad = []
    if chk["open"] != "ok":
        return ["Reopen"]
    in_before, in_after = chk["chain"] == before["chain"], chk["chain"] == after["chain"]
    if kind == "kill" or res in ("died", "hang"):
        if not (in_before or in_after):
            bad.append("Chain")
    elif res == "ok":
        if not in_after:
            bad.append("SuccessButNotApplied")
    elif res == "err":
        # a failure reported after the commit point with the complete new state in place is
        # "completes with its effect in place" (DESIGN.md 5, C08); anything else must be the old state
        if not (in_before or in_after):
            bad.append("FailureWithDamagedState")
    if op == "write":
        if len(chk["live"]) != len(before["live"]) or any(
                c not in (b, a) for c, b, a in zip(chk["live"], before["live"], after["live"])):
            bad.append("LiveImage")
    else:
        if chk["live"] != before["live"] and chk["live"] != after["live"]:
            # growth: the old range must be unchanged and the new range zero
            if not (op == "resize" and chk["live"][:len(before["live"])] == before["live"]
                    and not any(chk["live"][len(before["live"]):])):
                bad.append("LiveImage")
    for nm in chk["chain"][:-1]:
        want = before["images"].get(nm, after["images"].get(nm))
        got = chk["images"].get(nm)
        if want is not None and got is not None and got[:len(want)] != want:
            bad.append("SnapshotImage")
            break
    if chk["rev"] < before["rev"]:
        bad.append("RevBackwards")
    return bad


def run(prop, tier, seed, replay=None, only_ops=None):
    """only_ops (embedded use by another family's check, e.g. C16: {"resize"}): the fault enumeration
    restricted to these operations in every pre-state; no evidence file, no verdict lines; returns
    (violations, known, stats)"""
    t0 = time.time()
    quick = tier == "quick"
    build_harness(["crashvictim"])
    work = scratch("fs.")
    assumptions = [
        "process death, not power loss: the directory after a kill is exactly the effect of the system calls completed so far (strace kills the victim before the selected call executes)",
        "the operating goroutine is locked to one thread (GOMAXPROCS=1); pre-states are three short histories (1, 3 and 6 chain members); hole punching off in the victim",
        "failing calls are injected one at a time with ENOSPC and EIO on directory-changing calls and fsync of the operation under test",
        "coalesce (sfold) is an external process and is not itself crash-tested here",
    ]
    try:
        pairs = []
        if replay is not None:
            rp = json.load(open(replay))
            pairs = [(rp["pre"], rp["op"], rp["arg"])]
            only = rp
        else:
            only = None
            for pre, ops in PLAN.items():
                for op, arg in ops:
                    if only_ops is not None:
                        if op not in only_ops:
                            continue
                    elif quick and (pre, op) not in QUICK:
                        continue
                    pairs.append((pre, op, arg))
        bases = {}
        for pre in sorted({p for p, _, _ in pairs}):
            b = os.path.join(work, "base_" + pre)
            subprocess.run([VICTIM, "prep", b, pre], check=True, timeout=120, stdout=subprocess.DEVNULL)
            bases[pre] = b

        tlc_events, tasks, infos, nominal_bad = [], [], {}, []
        run_no = 0
        for pre, op, arg in pairs:
            run_no += 1
            rid = "%s:%s" % (pre, op)
            dB, dN = os.path.join(work, "b%d" % run_no), os.path.join(work, "n%d" % run_no)
            cp(bases[pre], dB)
            # the state the operation starts from (after the victim's own set-up steps)
            subprocess.run([VICTIM, "op", dB, op, arg], env=dict(os.environ, VICTIM_STOP_AT_BEGIN="1"),
                           stdout=subprocess.DEVNULL, stderr=subprocess.DEVNULL, timeout=120)
            before = run_check(dB)
            cp(bases[pre], dN)
            tr = os.path.join(work, "n%d.strace" % run_no)
            res = run_victim(dN, op, arg, tr)
            if res["res"] not in ("ok", "err"):
                raise HarnessError("nominal run of %s did not finish: %s" % (rid, res))
            _, calls = parse_strace(tr, dN)
            evs = abstract(calls, dN, rid)
            after = run_check(dN)
            if before["open"] != "ok":
                raise HarnessError("the state %s starts from cannot be opened: %s" % (rid, before["open"]))
            if after["open"] != "ok":
                if res["res"] != "ok":
                    raise HarnessError("state after the (failed) nominal run of %s cannot be opened: %s" % (rid, after["open"]))
                # no fault at all: the operation reported success and left a directory that the
                # real code cannot reopen -- "once an operation has returned success its effect is
                # durable" fails in the plainest way
                nominal_bad.append(dict(pre=pre, op=op, arg=arg, reopened=after["open"], before_chain=before["chain"]))
                continue
            infos[rid] = dict(pre=pre, op=op, arg=arg, before=before, after=after, events=evs, nominal=res["res"])
            tlc_events.append(dict(ev="init", run=rid, k=0, files=listing(bases[pre]),
                                   before=[rawfs_real(x) for x in chain_heads(before)],
                                   after=[rawfs_real(x) for x in chain_heads(after)]))
            tlc_events += [dict(e, run=rid) for e in evs]
            tlc_events.append(dict(ev="result", run=rid, k=len(evs) + 1, res=res["res"], injected=False))
            muts = [e for e in evs if e["sys"] in MUTATING]
            if only is not None:
                if only["kind"] == "nominal":
                    continue
                if only["kind"] == "kill":
                    tasks.append(("kill", rid, only["boundary"], None))
                else:
                    tasks.append(("fail", rid, only["boundary"], only["errno"]))
                continue
            step = 1
            if quick and len(muts) > 14:
                step = 2
            for i, e in enumerate(muts):
                if i % step == (seed % step):
                    tasks.append(("kill", rid, e["k"], None))
            fails = [e for e in evs if e["sys"] in MUTATING or e["ev"] in ("syncdir", "syncfile")]
            for i, e in enumerate(fails):
                for j, errno in enumerate(("ENOSPC", "EIO")):
                    if quick and (i + j + seed) % 2:
                        continue
                    tasks.append(("fail", rid, e["k"], errno))

        def do_task(t):
            kind, rid, k, errno = t
            info = infos[rid]
            e = [x for x in info["events"] if x["k"] == k][0]
            prevs = [x for x in info["events"] if x["k"] < k and x["sys"] in MUTATING and x["ok"]]
            prev = "%s:%s" % (prevs[-1]["ev"], path_class(prevs[-1]["path"])) if prevs else "start"
            d = os.path.join(work, "t_%s_%s_%d_%s" % (kind, rid.replace(":", "_"), k, errno))
            cp(bases[info["pre"]], d)
            tr = d + ".strace"
            if kind == "kill":
                inj = "%s:signal=SIGKILL:when=%d" % (e["sys"], e["when"])
            else:
                inj = "%s:error=%s:when=%d" % (e["sys"], errno, e["when"])
            # an injected failure leaves the process alive: in half of the cases it shuts down cleanly
            # afterwards (what the failed call left in memory is what the shutdown persists), in the
            # other half it dies right after the call returned
            res = run_victim(d, info["op"], info["arg"], tr, inject=inj, close_after=(kind == "fail" and k % 2 == 0))
            fevs = None
            if kind == "fail":
                _, calls = parse_strace(tr, d)
                fevs = abstract(calls, d, "%s!%d!%s" % (rid, k, errno))
            chk = run_check(d)
            # the interrupted / failed operation is issued again on the recovered directory (what a
            # supervisor or a retrying caller does next): it may succeed or be refused, but the
            # directory must again be a consistent before- or after-state with every image intact
            retry = None
            if chk["open"] == "ok" and info["op"] not in ("close", "open"):
                r2 = run_victim(d, info["op"], info["arg"], None, plain=True)
                retry = dict(res=r2, check=run_check(d))
            shutil.rmtree(d, ignore_errors=True)
            try:
                os.remove(tr)
            except OSError:
                pass
            return dict(kind=kind, rid=rid, k=k, errno=errno, sys=e["sys"], path=e["path"], ev=e["ev"], prev=prev,
                        res=res, check=chk, events=fevs, retry=retry)

        with ThreadPoolExecutor(max_workers=NCPU) as ex:
            outcomes = list(ex.map(do_task, tasks))

        # error-injected runs are validated by TLC too (NoSilentDamage on the model directory)
        for o in outcomes:
            if o["kind"] == "fail" and o["events"] is not None and o["res"]["res"] in ("ok", "err"):
                info = infos[o["rid"]]
                rid2 = "%s!%d!%s" % (o["rid"], o["k"], o["errno"])
                tlc_events.append(dict(ev="init", run=rid2, k=0, files=listing(bases[info["pre"]]),
                                       before=[rawfs_real(x) for x in chain_heads(info["before"])],
                                       after=[rawfs_real(x) for x in chain_heads(info["after"])]))
                tlc_events += o["events"]
                tlc_events.append(dict(ev="result", run=rid2, k=len(o["events"]) + 1, res=o["res"]["res"], injected=True))
        tf = os.path.join(work, "fstrace.ndjson")
        with open(tf, "w") as f:
            for e in tlc_events:
                f.write(json.dumps(e) + "\n")
        result = run_tlc_trace_fs(tf)
        model_recs = {(r["run"], r["k"]): r["rec"] for r in result["recs"]}

        violations, known, drift = [], [], []
        for nb in nominal_bad:
            sig = dict(rule=["Reopen"], site=nb["op"], context="no fault: success reported, directory cannot be reopened", errno="")
            rec = dict(property=prop, signature=sig, pre=nb["pre"], op=nb["op"], arg=nb["arg"], kind="nominal", boundary=0,
                       errno=None, reopened=dict(open=nb["reopened"], chain=[]), before_chain=nb["before_chain"])
            k = match_known(prop, sig)
            if k:
                known.append((k, rec))
            else:
                violations.append((save_replay(prop, "%s-nominal-%s" % (tier, fingerprint([nb["pre"], nb["op"]])), rec), rec))
        model_fail = {(f["run"], f["k"], f["rule"]) for f in result["failed"]}
        for o in outcomes:
            info = infos[o["rid"]]
            rules = judge(o["kind"], info["op"], info["before"], info["after"], o["check"], o["res"]["res"])
            if not rules and o.get("retry") and o["retry"]["res"]["res"] in ("ok", "err", "died", "hang"):
                # (head files are numbered: a second revert / snapshot legitimately ends on another head name)
                nh = lambda st: dict(st, chain=st["chain"][:-1] + ["HEAD"]) if st.get("chain") else st
                rules = ["Retry." + x for x in judge("fail", info["op"], nh(info["before"]), nh(info["after"]),
                                                     nh(o["retry"]["check"]), o["retry"]["res"]["res"])]
            if o["res"]["res"] == "setup-error":
                raise HarnessError("victim set-up failed: %s" % o["res"])
            # binding: the model's prediction for this boundary vs. the real recovery
            if o["kind"] == "kill":
                pred = model_recs.get((o["rid"], o["k"] - 1)) if o["k"] > 1 else None
                real = [rawfs_real(x) for x in chain_heads(o["check"])] if o["check"]["open"] == "ok" else ["FAIL"]
                if pred is not None and pred != real:
                    drift.append(dict(run=o["rid"], k=o["k"], model=pred, real=real))
            if not rules:
                continue
            sig = dict(rule=sorted(rules), site=info["op"],
                       context="%s@%s:%s after %s" % (o["kind"], o["sys"], path_class(o["path"]), o["prev"]),
                       errno=o["errno"] or "")
            rec = dict(property=prop, signature=sig, pre=info["pre"], op=info["op"], arg=info["arg"], kind=o["kind"],
                       boundary=o["k"], errno=o["errno"], syscall=o["sys"], path=o["path"], victim=o["res"],
                       reopened=dict(open=o["check"]["open"], chain=o["check"]["chain"]),
                       before_chain=info["before"]["chain"], after_chain=info["after"]["chain"])
            k = match_known(prop, sig)
            if k:
                known.append((k, rec))
            else:
                path = save_replay(prop, "%s-%s" % (tier, fingerprint([info["pre"], info["op"], o["kind"], o["k"], o["errno"]])), rec)
                violations.append((path, rec))
        # model-only alarms on the nominal sequences (Durable, or CrashSafe at a boundary that was not killed)
        model_only = [f for f in result["failed"] if "!" not in f["run"]]
        for f in model_only:
            if f["rule"] == "Durable":
                info = infos[f["run"]]
                sig = dict(rule=["Durable"], site=info["op"], context="directory change after the last fsync")
                rec = dict(property=prop, signature=sig, pre=info["pre"], op=info["op"], arg=info["arg"], kind="lint",
                           boundary=f["k"], errno=None)
                k = match_known(prop, sig)
                if k:
                    known.append((k, rec))
                else:
                    violations.append((save_replay(prop, "%s-durable-%s" % (tier, fingerprint(f)), rec), rec))

        nk = len([o for o in outcomes if o["kind"] == "kill"])
        nf = len(outcomes) - nk
        samples = []
        for rid, info in list(infos.items())[:3]:
            samples.append(dict(run=rid, calls=[dict(k=e["k"], sys=e["sys"], ev=e["ev"], path=e["path"]) for e in info["events"]][:40],
                                before=info["before"]["chain"], after=info["after"]["chain"]))
        distinct = len({(o["rid"], o["kind"], o["k"], o["errno"]) for o in outcomes})
        coverage = dict(
            evaluations=len(outcomes), distinct_nontrivial=distinct,
            rule="one evaluation = one real victim process killed before (kill) or failed at (ENOSPC/EIO) one system call of the operation, then reopened by a fresh checker process, then the same operation issued again on the recovered directory and the directory reopened once more; every directory-changing call of every sampled (pre-state, operation) is a boundary (quick tier: every second one of long operations); all are non-trivial (each changes the directory state at the crash point)",
            samples=samples, states=result["records"], transitions=result["records"],
            traces_validated_against_impl=result["runs"],
            crash_points=nk, failed_calls=nf, operations=[k for k in infos],
            retries_after_recovery=len([o for o in outcomes if o.get("retry")]),
            model_prefix_states_checked=len(result["recs"]), model_alarms=result["failed"][:20],
            spec_drift=drift[:20], exhaustive=not quick)
        if only_ops is not None:
            for _, rec in violations:
                rec["scenario"] = dict(layer="L3")
            return violations, known, dict(operations=list(infos), crash_points=nk, failed_calls=nf,
                                           retries_after_recovery=len([o for o in outcomes if o.get("retry")]))
        write_evidence(prop, tier, seed, "fault_enumeration", coverage, assumptions, time.time() - t0, len(violations))
        seen = set()
        for k, rec in known:
            if k.get("what") not in seen:
                print("KNOWN-FINDING: property=%s %s" % (prop, k.get("what", "")))
                seen.add(k.get("what"))
        shown = set()
        for path, rec in violations:
            print("VIOLATION property=%s replay=%s" % (prop, path))
            s = rec["signature"]
            key = (tuple(s["rule"]), s["site"], s["context"])
            if key not in shown:
                shown.add(key)
                print("  rule=%s site=%s context=%s victim=%s reopened=%s" % (
                    ",".join(s["rule"]), s["site"], s["context"], rec.get("victim"), rec.get("reopened")))
        log("[%s] %s: %d operations, %d crash points, %d failed calls, %d violations, %d known, %d model/impl drift notes, %.0fs" % (
            prop, tier, len(infos), nk, nf, len(violations), len(known), len(drift), time.time() - t0))
        return 1 if violations else 0
    finally:
        shutil.rmtree(work, ignore_errors=True)


def rawfs_real(n):
    if n.startswith("h") and n[1:].isdigit():
        return "volume-head-%03d.img" % int(n[1:])
    if n.startswith("s-"):
        return "volume-snap-%s.img" % n[2:]
    return n


def path_class(p):
    if p == "volume.meta" or p == "volume.meta.tmp":
        return p
    if p == "revision.counter":
        return p
    if p == ".":
        return "dir"
    c = "head" if p.startswith("volume-head") else "snap" if p.startswith("volume-snap") else "other"
    suf = ".img.meta.tmp" if p.endswith(".meta.tmp") else ".img.meta" if p.endswith(".meta") else ".img" if p.endswith(".img") else ""
    return c + suf


def run_tlc_trace_fs(tf):
    d = scratch("tlc.")
    try:
        for f in os.listdir(SPEC):
            if f.endswith(".tla"):
                shutil.copy(os.path.join(SPEC, f), d)
        resf = os.path.join(d, "result.json")
        cfg = 'SPECIFICATION Spec\nCONSTANTS\n  TraceFile = "%s"\n  ResultFile = "%s"\nINVARIANTS Finish\nCHECK_DEADLOCK FALSE\n' % (tf, resf)
        open(os.path.join(d, "run.cfg"), "w").write(cfg)
        p = subprocess.run(["tlc", "-workers", "1", "-metadir", os.path.join(d, "m"), "-config", "run.cfg", "FSTrace.tla"],
                           cwd=d, stdout=subprocess.PIPE, stderr=subprocess.STDOUT, text=True, timeout=3600)
        if not os.path.exists(resf) or "Error:" in p.stdout:
            i = p.stdout.find("Error:")
            raise HarnessError("FSTrace did not finish:\n" + p.stdout[max(0, i - 200):i + 2500])
        r = json.load(open(resf))
        if r["consumed"] != r["records"]:
            raise HarnessError("FSTrace consumed %d of %d" % (r["consumed"], r["records"]))
        return r
    finally:
        shutil.rmtree(d, ignore_errors=True)
