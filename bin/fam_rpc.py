"""RPC family: C15 (DESIGN.md 3.5, 5).  (A) TLC checks Rpc.tla (safety + liveness under fairness,
3-4 concurrent calls, every reply order, error replies, stream death, deadlines) and refutes two
mutants; (B) the L4 driver runs the real rpc.Client against a scripted peer with an independent
codec; (C) TLC validates every recorded execution against RpcTrace.tla."""
import json, os, re, shutil, time
from vlib import *

FAMILY = ["C15"]


def mc_cfg(calls, bug=None, live=True):
    return ("SPECIFICATION %s\nCONSTANTS\n  Calls = {%s}\n  Bug = {%s}\nINVARIANTS ReplyMatches FailureReported NotifiedOnce\n"
            "PROPERTIES StickyError NoPendingAfterError %s\nCHECK_DEADLOCK FALSE\n" % (
                "LiveSpec" if live else "Spec", ", ".join('"c%d"' % i for i in range(1, calls + 1)),
                ('"%s"' % bug) if bug else "", "EveryCallReturns" if live else ""))


RULE_CTX = {"FrameFidelity": "frame", "SeqOrder": "frame", "ReplyMatches": "reply", "Payload": "reply",
            "ResultClass": "reply", "ReplyWithoutCause": "reply", "LostReply": "reply", "Prompt": "timing",
            "TimeoutDespiteReply": "timing", "TimeoutWithoutPending": "timing", "SpuriousTransportError": "error",
            "EveryCallReturns": "liveness", "FailureReported": "report", "SpuriousNotify": "report", "Hang": "liveness"}


def run(prop, tier, seed, replay=None):
    t0 = time.time()
    quick = tier == "quick"
    build_harness(["rpcdrv"])
    work = scratch("rpc.")
    assumptions = [
        "the peer is scripted by the harness and speaks the wire format through its own codec; payloads are one repeated stamp byte derived from the call's offset",
        "all client deadlines shortened to 0.6 s through the verif hook rpc.VerifSetTimeouts",
        "codec fidelity is checked on every frame the drivers send (types read/write/sync/unmap/ping, offsets up to 2^62, sizes 0..64 KiB), not over the whole frame space",
    ]
    try:
        mc_states = mc_trans = 0
        mc_runs = []
        if replay is None and not os.environ.get("VERIF_DEV_SKIP_MC"):
            for n, live in ([(3, True)] if quick else [(3, True), (4, False)]):
                r = run_tlc_mc("Rpc", mc_cfg(n, live=live), timeout=3600)
                if not r["ok"]:
                    raise HarnessError("Rpc.tla violates %s:\n%s" % (r["violated"], r["out"][-3000:]))
                mc_states += r["distinct"]
                mc_trans += r["generated"]
                mc_runs.append(dict(calls=n, liveness=live, distinct=r["distinct"], generated=r["generated"]))
            if not quick:
                for bug, expect in [("completeWrongSeq", "ReplyMatches"), ("noFailPending", "NoPendingAfterError|EveryCallReturns")]:
                    r = run_tlc_mc("Rpc", mc_cfg(3, bug=bug), timeout=1200)
                    if r["ok"] or not re.search(expect, r["violated"] or "Temporal"):
                        raise HarnessError("self-check: mutant %s not refuted (%s)" % (bug, r["violated"]))
                    mc_runs.append(dict(mutant=bug, refuted_by=r["violated"]))
        parts, cmds = [], []
        if replay is not None:
            rp = json.load(open(replay))
            scf = os.path.join(work, "replay.json")
            json.dump(rp["scenario"], open(scf, "w"))
            parts = [os.path.join(work, "t0.ndjson")]
            cmds = [[os.path.join(BUILD, "rpcdrv"), "-in", scf, "-out", parts[0]]]
        else:
            nproc = min(NCPU * 2, 32)
            per = 6 if quick else 120
            for i in range(nproc):
                out = os.path.join(work, "t%d.ndjson" % i)
                parts.append(out)
                cmds.append([os.path.join(BUILD, "rpcdrv"), "-gen", str(per), "-seed", str(seed * 1000 + i),
                             "-base", str(i * 10000), "-out", out])
        res = run_parallel(cmds, timeout=900 if quick else 7200)
        for (rc, out), c in zip(res, cmds):
            if rc not in (0, 3):
                raise HarnessError("driver failed rc=%s: %s\n%s" % (rc, " ".join(c), out[-2000:]))
        trace = os.path.join(work, "trace.ndjson")
        scen = {}
        with open(trace, "w") as tf:
            for p in parts:
                for line in open(p):
                    e = json.loads(line)
                    if e["ev"] == "Scenario":
                        scen[e["t"]] = e["scenario"]
                    tf.write(line)
        result = run_tlc_trace("RpcTrace", {"Calls": "{" + ", ".join(str(i) for i in range(1, 17)) + "}", "Bug": "{}", "DeadlineMs": 600}, trace,
                               timeout=1800, invariants=("Finish",))
        if result["consumed"] != result["records"]:
            raise HarnessError("trace validation consumed %d of %d" % (result["consumed"], result["records"]))
        violations, known = [], []
        for f in result["failed"]:
            if any(r.startswith("Harness") or r == "UnknownRecord" for r in f["rules"]):
                raise HarnessError("harness-level inconsistency: %s" % json.dumps(f)[:1500])
            rec = f["rec"]
            sig = dict(rule=sorted(f["rules"]), site=rec.get("op", rec["ev"]), context=RULE_CTX.get(f["rules"][0], ""))
            r = dict(property=prop, signature=sig, failed_record=f, scenario=scen.get(f["t"]))
            k = match_known(prop, sig)
            if k:
                known.append((k, r))
            else:
                violations.append((save_replay(prop, "%s-%s" % (tier, fingerprint([f["t"], scen.get(f["t"])])), r), r))
        shapes = set()
        faults = 0
        for t, sc in scen.items():
            shapes.add(fingerprint([[c["op"] for c in cs] for cs in sc["callers"]] + [sc["rules"], sc["dieAt"], sc["dieHow"]]))
            if sc["dieAt"] or any(r["action"] in ("stall", "error") for r in sc["rules"]):
                faults += 1
        coverage = dict(states=mc_states or (1 if replay else 0), transitions=mc_trans or (1 if replay else 0),
                        traces_validated_against_impl=result["traces"],
                        samples=[scen[t] for t in list(scen)[:3]] or [dict(note="replay")],
                        evaluations=result["traces"], distinct_nontrivial=len(shapes),
                        rule="an execution = 1..4 concurrent callers x 1..3 calls against the scripted peer; distinct = distinct (operation mix, reply script, fault point); all involve at least one round trip",
                        executions_with_faults=faults, records_validated=result["records"],
                        model_checking_runs=mc_runs, exhaustive=False)
        write_evidence(prop, tier, seed, "model_checking", coverage, assumptions, time.time() - t0, len(violations))
        for k, r in known:
            print("KNOWN-FINDING: property=%s %s" % (prop, k.get("what", "")))
        for path, r in violations:
            print("VIOLATION property=%s replay=%s" % (prop, path))
            print("  rule=%s site=%s" % (",".join(r["signature"]["rule"]), r["signature"]["site"]))
        log("[%s] %s: %d executions (%d with faults), %d records, %d violations, %.0fs" % (
            prop, tier, result["traces"], faults, result["records"], len(violations), time.time() - t0))
        return 1 if violations else 0
    finally:
        shutil.rmtree(work, ignore_errors=True)
