"""Shared machinery of /verif/bin/check: building the harness from /repo, running
TLC (model checking, simulation, trace validation), evidence files, known findings,
verdict lines.  See DESIGN.md sections 2, 4.6, 10."""
import json, os, re, shutil, subprocess, sys, tempfile, time, hashlib, glob

VERIF = os.path.dirname(os.path.dirname(os.path.abspath(__file__)))
SPEC = os.path.join(VERIF, "spec")
BUILD = os.path.join(VERIF, "build")
REPO = os.environ.get("VERIF_REPO", "/repo")
NCPU = os.cpu_count() or 4

GOENV = dict(os.environ, GOFLAGS="-mod=mod", GOPROXY="off", GOSUMDB="off", GOTOOLCHAIN="local")


class HarnessError(Exception):
    """tooling problem: exit 2, never a violation"""


def log(*a):
    print(*a, file=sys.stderr, flush=True)


def scratch(prefix="verif."):
    base = os.environ.get("VERIF_SCRATCH", "/tmp")
    return tempfile.mkdtemp(prefix=prefix, dir=base)


def build_harness(cmds):
    """(re)build the harness binaries from /repo's current working tree, hooks on"""
    os.makedirs(BUILD, exist_ok=True)
    hdir = os.path.join(VERIF, "harness")
    shutil.copyfile(os.path.join(REPO, "go.sum"), os.path.join(hdir, "go.sum"))
    gomod = open(os.path.join(hdir, "go.mod")).read()
    want = "replace github.com/openebs/jiva => " + REPO
    gomod2 = re.sub(r"replace github.com/openebs/jiva => \S+", want, gomod)
    if gomod2 != gomod:
        open(os.path.join(hdir, "go.mod"), "w").write(gomod2)
    t0 = time.time()
    for c in cmds:
        out = os.path.join(BUILD, c)
        p = subprocess.run(["go", "build", "-tags", "verif", "-o", out, "./cmd/" + c], cwd=hdir, env=GOENV,
                           stdout=subprocess.PIPE, stderr=subprocess.STDOUT, text=True)
        if p.returncode != 0:
            # a tree that does not compile is not a property violation
            raise HarnessError("go build %s failed:\n%s" % (c, p.stdout[-4000:]))
    log("[build] %s in %.1fs" % (" ".join(cmds), time.time() - t0))


def build_repo_binary(out, pkg="."):
    p = subprocess.run(["go", "build", "-tags", "verif", "-o", out, pkg], cwd=REPO, env=GOENV,
                       stdout=subprocess.PIPE, stderr=subprocess.STDOUT, text=True)
    if p.returncode != 0:
        raise HarnessError("go build of /repo failed:\n%s" % p.stdout[-4000:])


# ----------------------------------------------------------------------------- TLC
def _tlc_dir(extra_files=()):
    d = scratch("tlc.")
    for f in glob.glob(os.path.join(SPEC, "*.tla")):
        shutil.copy(f, d)
    for f in extra_files:
        shutil.copy(f, d)
    return d


TLC_STATS = re.compile(r"(\d+) states generated, (\d+) distinct states found, (\d+) states left on queue")


def run_group(cmd, cwd=None, timeout=None, env=None):
    """run a command in a process group of its own; on time-out kill exactly that group (the `tlc`
    wrapper starts the JVM as a child: killing only the wrapper would leave it running, and killing
    every TLC on the machine would hit checks that run side by side).  Returns None on time-out."""
    import signal
    pr = subprocess.Popen(cmd, cwd=cwd, env=env, stdout=subprocess.PIPE, stderr=subprocess.STDOUT, text=True,
                          start_new_session=True)
    try:
        out, _ = pr.communicate(timeout=timeout)
    except subprocess.TimeoutExpired:
        try:
            os.killpg(pr.pid, signal.SIGKILL)
        except ProcessLookupError:
            pass
        pr.communicate()
        return None
    return subprocess.CompletedProcess(cmd, pr.returncode, out, None)


def run_tlc_mc(module, cfg_text, workers=None, timeout=3600, extra=(), heap=None):
    """exhaustive TLC run; returns dict(ok, generated, distinct, violated, out, depth)"""
    d = _tlc_dir()
    try:
        open(os.path.join(d, "run.cfg"), "w").write(cfg_text)
        cmd = ["tlc", "-workers", str(workers or min(NCPU, 12)), "-metadir", os.path.join(d, "m"),
               "-config", "run.cfg"] + list(extra) + [module + ".tla"]
        t0 = time.time()
        p = run_group(cmd, cwd=d, timeout=timeout)
        if p is None:
            raise HarnessError("TLC timed out after %ds on %s" % (timeout, module))
        out = p.stdout
        m = TLC_STATS.findall(out)
        res = dict(ok=False, generated=0, distinct=0, violated=None, out=out, wall=time.time() - t0, depth=0)
        if m:
            res["generated"], res["distinct"] = int(m[-1][0]), int(m[-1][1])
        dm = re.search(r"depth of the complete state graph search is (\d+)", out)
        if dm:
            res["depth"] = int(dm.group(1))
        v = re.search(r"Error: (Invariant|Action property|Temporal properties?) ?(\S*) (is|was|were) violated", out)
        if v:
            res["violated"] = v.group(2) or v.group(1)
        elif "Model checking completed. No error has been found." in out:
            res["ok"] = True
        elif "Error:" in out or not m:
            raise HarnessError("TLC failed on %s:\n%s" % (module, out[-3000:]))
        return res
    finally:
        shutil.rmtree(d, ignore_errors=True)


def run_apalache(module, inv, length=0, timeout=600):
    """symbolic check (Apalache, unbounded integers); returns 'ok' | 'violated'"""
    d = _tlc_dir()
    try:
        cmd = ["apalache-mc", "check", "--init=Init", "--next=Next", "--inv=" + inv, "--length=%d" % length,
               "--out-dir=" + os.path.join(d, "apa"), module + ".tla"]
        p = run_group(cmd, cwd=d, timeout=timeout)
        if p is None:
            raise HarnessError("Apalache timed out on %s" % module)
        if "The outcome is: NoError" in p.stdout:
            return "ok"
        if "The outcome is: Error" in p.stdout and "violated" in p.stdout:
            return "violated"
        raise HarnessError("Apalache failed on %s:\n%s" % (module, p.stdout[-3000:]))
    finally:
        shutil.rmtree(d, ignore_errors=True)


def run_tlc_simulate(module, cfg_text, num, depth, seed, timeout=600):
    """random behaviours of the specification; returns list of behaviours, each a list of
    state dicts {var: text}"""
    d = _tlc_dir()
    try:
        open(os.path.join(d, "run.cfg"), "w").write(cfg_text)
        pre = os.path.join(d, "sim")
        cmd = ["tlc", "-workers", "1", "-metadir", os.path.join(d, "m"), "-config", "run.cfg",
               "-simulate", "file=%s,num=%d" % (pre, num), "-depth", str(depth), "-seed", str(seed),
               module + ".tla"]
        p = run_group(cmd, cwd=d, timeout=timeout)
        if p is None:
            raise HarnessError("TLC simulation timed out")
        files = sorted(glob.glob(pre + "*"))
        if not files:
            raise HarnessError("TLC simulation produced nothing:\n" + p.stdout[-3000:])
        behaviours = []
        for f in files:
            behaviours.append(open(f).read())
        return behaviours
    finally:
        shutil.rmtree(d, ignore_errors=True)


def run_tlc_trace(module, constants, trace_file, timeout=3600, invariants=("Finish", "SpecSane")):
    """validate recorded executions; returns the result JSON written by the spec"""
    d = _tlc_dir()
    try:
        resf = os.path.join(d, "result.json")
        consts = dict(constants)
        consts["TraceFile"] = '"%s"' % trace_file
        consts["ResultFile"] = '"%s"' % resf
        cfg = "SPECIFICATION TSpec\nCONSTANTS\n" + "".join("  %s = %s\n" % kv for kv in consts.items())
        cfg += "INVARIANTS " + " ".join(invariants) + "\nCHECK_DEADLOCK FALSE\n"
        open(os.path.join(d, "run.cfg"), "w").write(cfg)
        cmd = ["tlc", "-workers", "1", "-metadir", os.path.join(d, "m"), "-config", "run.cfg", module + ".tla"]
        p = run_group(cmd, cwd=d, timeout=timeout)
        if p is None:
            raise HarnessError("TLC trace validation timed out")
        if not os.path.exists(resf):
            try:
                open(os.path.join(VERIF, "scratch_tlc_trace_failure.out"), "w").write(p.stdout)
                shutil.copy(trace_file, os.path.join(VERIF, "scratch_tlc_trace_failure.ndjson"))
            except Exception:
                pass
            raise HarnessError("trace validation did not finish (specification error?):\n" + p.stdout[-4000:])
        if "Error:" in p.stdout:
            raise HarnessError("trace validation reported a specification-level error:\n" + p.stdout[-4000:])
        return json.load(open(resf))
    finally:
        shutil.rmtree(d, ignore_errors=True)


# ----------------------------------------------------------------------------- findings
def load_known():
    p = os.path.join(VERIF, "known_findings.json")
    if not os.path.exists(p):
        return []
    return json.load(open(p)).get("findings", [])


def match_known(prop, sig):
    """sig: dict(rule=..., site=..., context=...).  A known entry matches when every key it
    specifies equals (or, for rule, is contained in) the violation's signature."""
    for k in load_known():
        if k.get("status") != "known" or k.get("property") != prop:
            continue
        s = k.get("signature", {})
        ok = True
        for key, want in s.items():
            have = sig.get(key)
            if isinstance(have, (list, set, tuple)):
                if want not in have:
                    ok = False
            elif have != want:
                ok = False
        if ok:
            return k
    return None


def write_evidence(prop, tier, seed, level, coverage, assumptions, wall, violations):
    if os.environ.get("VERIF_DEV_SKIP_MC") or os.environ.get("VERIF_NO_EVIDENCE"):
        # development runs (model checking skipped, seeded changes applied to /repo) never
        # touch the evidence files
        return
    os.makedirs(os.path.join(VERIF, "evidence"), exist_ok=True)
    ev = dict(property_id=prop, tier=tier, seed=int(seed), level=level, coverage=coverage,
              assumptions=assumptions, wall_s=round(wall, 2), violations=int(violations))
    tmp = os.path.join(VERIF, "evidence", prop + ".json.tmp")
    json.dump(ev, open(tmp, "w"), indent=1, sort_keys=True)
    os.replace(tmp, os.path.join(VERIF, "evidence", prop + ".json"))


def save_replay(prop, name, obj):
    d = os.path.join(VERIF, "replays", prop)
    os.makedirs(d, exist_ok=True)
    p = os.path.join(d, name + ".json")
    json.dump(obj, open(p, "w"), indent=1)
    return p


def fingerprint(obj):
    return hashlib.sha1(json.dumps(obj, sort_keys=True).encode()).hexdigest()[:16]


def run_parallel(cmds, timeout, env=None):
    """run commands (lists) concurrently; returns list of (rc, output)"""
    procs = []
    for c in cmds:
        procs.append(subprocess.Popen(c, stdout=subprocess.PIPE, stderr=subprocess.STDOUT, text=True, env=env))
    res = []
    deadline = time.time() + timeout
    for p in procs:
        try:
            out, _ = p.communicate(timeout=max(1, deadline - time.time()))
            res.append((p.returncode, out))
        except subprocess.TimeoutExpired:
            p.kill()
            out, _ = p.communicate()
            res.append((-9, out))
    return res
