"""Replica family: C01 C06 C10 C11 C12 C16 C17 (DESIGN.md 3.1, 5).
(A) TLC model-checks Replica.tla in the property's bounded configuration,
(B) scenarios come from TLC random walks of the same module and from the seeded
    state-aware generator inside the driver,
    the driver (harness L0) executes them on the real replica.Server,
(C) TLC validates every recorded execution against ReplicaTrace.tla."""
import json, os, re, shutil, subprocess, sys, time
from vlib import *

FAMILY = ["C01", "C06", "C10", "C11", "C12", "C16", "C17"]

INVS = "TypeOK ChainWF ReadBack LiveIsRef LocSound UserSnapImmutable PunchSafe CleanerNeverPicks"
PROPS_ACT = "RevExact RevCounts RefusedUnchanged DeleteNeutral"


def mc_cfg(c):
    def s(v):
        if isinstance(v, (set, frozenset, list, tuple)):
            return "{" + ", ".join(s(x) for x in sorted(v, key=str)) + "}"
        if isinstance(v, bool):
            return "TRUE" if v else "FALSE"
        if isinstance(v, str):
            return '"%s"' % v
        return str(v)
    t = "SPECIFICATION Spec\nCONSTANTS\n"
    for k in ["MaxNB", "SPB", "Bug", "InitNB", "Names", "MaxV", "MaxHead", "MaxLen", "MaxRev", "Punch", "Ops", "Sim"]:
        t += "  %s = %s\n" % (k, s(c[k]))
    t += "CONSTRAINT Bound\nVIEW View\nINVARIANTS %s\nPROPERTIES %s\nCHECK_DEADLOCK FALSE\n" % (INVS, PROPS_ACT)
    return t


BASE = dict(MaxNB=2, SPB=2, Bug=set(), InitNB=2, Names={"a", "b"}, MaxV=2, MaxHead=2, MaxLen=3, MaxRev=3,
            Punch={True}, Ops={"read"}, Sim=False)


def cfgd(**kw):
    d = dict(BASE)
    d.update(kw)
    return d


# the replica's side of a rebuild: sync of snapshot files under the open replica, reload,
# UpdateLUNMap in one piece or with I/O between its two sections, promotion
REBUILD_CFG = cfgd(MaxNB=2, InitNB=2, SPB=1, MaxV=1, MaxRev=3, MaxHead=1, MaxLen=2,
                   Ops={"read", "rebuild", "reopen", "meta", "mode"}, Punch={True})

# per property: exhaustive configurations (quick, thorough), mutants that TLC must refute
# (thorough only), generator profile and which trace-spec rules / events are in scope.
MC = {
    "C01": dict(quick=[cfgd(MaxV=1, Ops={"read", "reopen"}, Punch={True, False}),
                       cfgd(MaxNB=1, InitNB=1, SPB=2, MaxV=1, MaxHead=2, MaxLen=3, MaxRev=3, Ops={"unmap", "revert", "read"})],
                # (MaxRev 4 with two values and both punch settings exceeds 9 M distinct states and 40 min:
                # one dimension at a time, 1.5 M and 1.0 M distinct states)
                thorough=[cfgd(MaxRev=3, Ops={"read", "reopen", "revert"}, Punch={True, False}),
                          cfgd(MaxRev=4, MaxV=1, Ops={"read", "reopen", "revert"}, Punch={True, False}),
                          cfgd(MaxNB=3, InitNB=3, SPB=1, MaxV=1, MaxHead=3, MaxLen=4, MaxRev=4, Ops={"read"}),
                          cfgd(MaxNB=2, InitNB=2, MaxV=1, SPB=2, MaxRev=3, MaxHead=1, MaxLen=2, Ops={"read", "unmap", "reopen"}),
                          REBUILD_CFG],
                mutants=[("removeBase", "ReadBack|LiveIsRef", {}),
                         ("mergeTakesScan", "LocSound|ReadBack", "rebuild")]),
    "C06": dict(quick=[cfgd(SPB=1, MaxRev=4, Ops={"revert"}),
                       cfgd(MaxNB=2, InitNB=2, SPB=1, MaxV=1, MaxHead=2, MaxLen=3, MaxRev=3, Ops={"unmap", "revert", "read"})],
                # (two values x two sectors x reopen does not finish in 100 min since Unmap / ReplaceDisk /
                # the rebuild actions joined the model: one dimension at a time; 2.5 M and 1.3 M distinct states)
                thorough=[cfgd(MaxRev=5, MaxHead=3, MaxLen=3, MaxV=1, Ops={"revert", "reopen"}),
                          cfgd(MaxRev=5, MaxHead=3, MaxLen=3, SPB=1, Ops={"revert", "reopen"}),
                          cfgd(SPB=1, MaxV=1, MaxHead=3, MaxLen=4, MaxRev=5, Ops={"revert"})],
                mutants=[("punchWrongOwner", "PunchSafe|UserSnapImmutable", dict(MaxNB=2, InitNB=2, SPB=1, MaxHead=2, MaxLen=3)),
                         ("unmapAllFiles", "UserSnapImmutable", dict(MaxNB=2, InitNB=2, SPB=1, MaxV=1, MaxHead=2, MaxLen=3,
                                                                   MaxRev=3, Ops={"unmap", "revert", "read"}))]),
    "C10": dict(quick=[cfgd(MaxNB=1, InitNB=1, SPB=1, MaxV=1, MaxRev=5, Ops={"mode", "meta", "reopen"}), REBUILD_CFG],
                thorough=[cfgd(MaxNB=1, InitNB=1, SPB=2, MaxV=1, MaxRev=8, MaxHead=3, MaxLen=4,
                               Ops={"mode", "meta", "reopen", "revert"})],
                mutants=[("writeInAnyMode", "RefusedUnchanged|RevExact|ReadBack|LiveIsRef", dict(AddOps={"mode", "reopen"}))]),
    "C11": dict(quick=[cfgd(SPB=1, MaxV=1, MaxHead=3, MaxLen=4, MaxRev=4, Ops=set())],
                thorough=[cfgd(SPB=1, MaxV=2, MaxHead=4, MaxLen=5, MaxRev=5, Ops={"read"}, Names={"a", "b", "c"}),
                          cfgd(SPB=2, MaxV=1, MaxHead=3, MaxLen=4, MaxRev=4, Ops={"read", "reopen"})],
                mutants=[("removeBase", "ReadBack|LiveIsRef", {})]),
    "C12": dict(quick=[cfgd(MaxNB=1, InitNB=1, SPB=1, MaxV=1, MaxHead=3, MaxLen=4, MaxRev=3,
                            Ops={"revert", "reopen", "dup", "meta", "replace"})],
                thorough=[cfgd(MaxNB=1, InitNB=1, SPB=1, MaxV=1, MaxHead=4, MaxLen=5, MaxRev=3, Names={"a", "b", "c"},
                               Ops={"revert", "reopen", "dup", "meta", "resize", "mode", "replace"})],
                mutants=[("dupSnapshotClobbers", "RefusedUnchanged|ChainWF", dict(AddOps={"dup"})),
                         ("replaceUnchecked", "ChainWF|RefusedUnchanged", {})]),
    "C16": dict(quick=[cfgd(MaxNB=3, InitNB=1, SPB=1, MaxV=1, MaxRev=3, Ops={"resize", "reopen", "read"})],
                thorough=[cfgd(MaxNB=3, InitNB=1, SPB=2, MaxV=1, MaxRev=4, MaxHead=3, MaxLen=4,
                               Ops={"resize", "reopen", "read", "revert"})],
                mutants=[]),
    "C17": dict(quick=[cfgd(MaxNB=1, InitNB=1, SPB=1, MaxV=1, MaxRev=3, MaxHead=2, MaxLen=3,
                            Ops={"mode", "meta", "reopen", "read", "revert", "resize"})],
                thorough=[cfgd(MaxNB=1, InitNB=1, SPB=2, MaxV=1, MaxRev=4, MaxHead=3, MaxLen=4,
                               Ops={"mode", "meta", "reopen", "read", "revert", "resize", "dup"})],
                mutants=[("writeInAnyMode", "RefusedUnchanged|RevExact|ReadBack|LiveIsRef", dict(AddOps={"mode", "reopen"}))]),
}

PROFILE = {"C01": "mixed", "C06": "multiblock", "C10": "mixed", "C11": "cleaner", "C12": "manage",
           "C16": "resize", "C17": "gate"}

# TLC random-walk scenario source (SPB = 8 like the code)
SIM_OPS = {
    "C01": {"read", "reopen", "revert", "resize", "unmap"},
    "C06": {"read", "revert", "reopen", "unmap"},
    "C10": {"mode", "meta", "reopen"},
    "C11": {"read", "reopen"},
    "C12": {"revert", "reopen", "dup", "meta", "resize", "mode", "replace"},
    "C16": {"resize", "reopen", "read"},
    "C17": {"mode", "meta", "reopen", "read", "revert", "resize", "dup"},
}

DELETE_EVS = {"PrepareRemove", "Coalesce", "RemoveDisk", "CleanerPick", "CleanerIdle"}
REBUILD_EVS = {"SyncFile", "UpdateLUNMap", "LunMapScan", "LunMapMerge"}
STRUCT_RULES = {"Chain", "EngineDisks", "DirNames", "DirMeta", "Head", "VolumeMeta", "HeadParent"}


def attribute(f):
    """which properties does a failed record violate? (DESIGN.md 5)"""
    ev, rules, props = f["ev"], set(f["rules"]), set()
    spec_refused = f["spec"]["res"] == "refused"
    if "Result" in rules:
        props.add("C17")
        props |= {"Write": {"C01"}, "Read": {"C01"}, "Snapshot": {"C12"}, "Revert": {"C12", "C06"},
                  "PrepareRemove": {"C11"}, "RemoveDisk": {"C11"}, "Coalesce": {"C11"}, "Resize": {"C16"},
                  "SetRev": {"C10"}, "Open": {"C12"}, "Reload": {"C12"}, "ReplaceDisk": {"C12"},
                  "Unmap": {"C01"}, "UpdateLUNMap": {"C01"}, "LunMapScan": {"C01"}, "LunMapMerge": {"C01"}}.get(ev, set())
    if "ReadData" in rules:
        props.add("C01")
    data_rules = rules & {"LiveIsRef", "DirData", "UserSnapImmutable"}
    if data_rules:
        if rules & {"LiveIsRef", "DirData"}:
            props.add("C01")
        if rules & {"UserSnapImmutable", "DirData"}:
            props.add("C06")
        if ev in DELETE_EVS:
            props.add("C11")
        if ev == "Resize":
            props.add("C16")
        if ev == "Revert":
            props.add("C06")
    if "Hang" in rules:
        op = f.get("a", {}).get("op", "")
        props |= {"C12", "C17"}
        if op in DELETE_EVS:
            props.add("C11")
    if rules & {"Rev", "RevBackwards"}:
        props.add("C10")
    if "OpenTwice" in rules:
        props.add("C17")
    if rules & STRUCT_RULES:
        props.add("C12")
        if ev in DELETE_EVS:
            props.add("C11")
        if ev == "Resize":
            props.add("C16")
    if "Size" in rules:
        props |= {"C16", "C12"}
    if rules & {"Checkpoint", "Rebuilding", "Mode", "Open"}:
        props |= {"C12", "C17"}
    if "PlanTarget" in rules:
        props |= {"C11", "C12"}
    if "Candidates" in rules:
        props.add("C11")
        # a candidate that is a retained user snapshot, or whose merge target is one: the
        # cleaner would rewrite a user-created snapshot (C06)
        ch, users = f["spec"].get("chain") or [], set(f["spec"].get("users") or [])
        for c in f["logged"].get("cand") or []:
            if c in ch and (c in users or (ch.index(c) > 0 and ch[ch.index(c) - 1] in users)):
                props.add("C06")
    if spec_refused and (rules - {"Result"}):
        props.add("C17")        # a call that had to be refused had side effects
        props.add("C12")
    if f["logged"]["res"] == "refused" and (rules - {"Result"}):
        props.add("C17")        # the implementation refused, yet something changed
        props.add("C12")
    return props


def context_of(f):
    """normalised minimal facts of the failing input (for known-finding signatures)"""
    ev, a, sp = f["ev"], f.get("a", {}), f["spec"]
    ch = sp.get("chain") or []
    name = a.get("name")
    ctx = []
    if ev in ("Revert", "RemoveDisk", "PrepareRemove") and name:
        if name == sp.get("head"):
            ctx.append("target=head")
        elif ch and name == ch[0]:
            ctx.append("target=base")
        elif len(ch) >= 2 and name == ch[-2]:
            ctx.append("target=latest")
        elif name not in ch:
            ctx.append("target=unknown")
        else:
            ctx.append("target=member")
    if ev == "Snapshot" and name and ("s-" + name) in ch:
        ctx.append("duplicate-name")
    if ev in ("Write", "Read"):
        ctx.append("mode=%s" % sp.get("mode"))
        ctx.append("open=%s" % str(sp.get("open")).lower())
    if sp["res"] == "refused":
        ctx.append("must-refuse")
    return ",".join(ctx)


OPMAP = {"Write": ("s0", "n", "v"), "Read": ("s0", "n"), "Unmap": ("s0", "n"), "Snapshot": ("name", "user"),
         "ReplaceDisk": ("target", "source"), "UpdateLUNMap": (), "LunMapScan": (), "LunMapMerge": (),
         "PrepareRemove": ("name",), "Coalesce": ("name",), "RemoveDisk": ("name",), "Revert": ("name",),
         "Resize": ("nb",), "Close": (), "Open": (), "Reload": (), "SetPreload": ("p",), "SetPunch": ("p",),
         "SetMode": ("mode",), "SetRebuilding": ("r",), "SetCheckpoint": ("name",), "SetRev": ("c",),
         "CleanerPick": ()}

OP_RE = re.compile(r'^/\\ op = \[name \|-> "(\w+)"(?:, args \|-> (.*))?\]\s*$', re.M)
INIT_RE = re.compile(r'^/\\ (size|punch) = (\S+)\s*$', re.M)


def parse_args(txt):
    out = {}
    if not txt:
        return out
    txt = txt.strip()
    if txt.startswith("["):
        txt = txt[1:-1]
    for part in re.split(r",\s*(?=\w+ \|->)", txt):
        m = re.match(r'(\w+) \|-> (.*)$', part.strip())
        if not m:
            continue
        k, v = m.group(1), m.group(2).strip()
        if v in ("TRUE", "FALSE"):
            out[k] = (v == "TRUE")
        elif v.startswith('"'):
            out[k] = v.strip('"')
        else:
            try:
                out[k] = int(v)
            except ValueError:
                out[k] = v
    return out


def behaviours_to_scenarios(behaviours, first_id):
    scs = []
    for i, text in enumerate(behaviours):
        states = re.split(r"^STATE_?\s*\d*.*$|^State \d+:.*$", text, flags=re.M)
        ops, nb, punch = [], None, True
        for st in states:
            m = OP_RE.search(st)
            if not m:
                continue
            name, args = m.group(1), parse_args(m.group(2))
            if name == "Init":
                for k, v in INIT_RE.findall(st):
                    if k == "size":
                        nb = int(v)
                    else:
                        punch = (v == "TRUE")
                continue
            if name == "PunchOne":
                continue
            if name not in OPMAP:
                raise HarnessError("unknown op in TLC behaviour: " + name)
            op = {"ev": name}
            for k in OPMAP[name]:
                if k in args:
                    op[k] = args[k]
            if name == "Snapshot" and "name" in op:
                pass
            ops.append(op)
        if nb is None or not ops:
            continue
        scs.append({"id": first_id + i, "nb": nb, "punch": punch, "src": "tlc-simulate", "ops": ops})
    return scs


def sim_cfg(ops):
    c = dict(MaxNB=4, SPB=8, Bug=set(), InitNB=3, Names={"a", "b", "c", "d"}, MaxV=200, MaxHead=9, MaxLen=7,
             MaxRev=1000, Punch={True, False}, Ops=ops, Sim=True)
    t = mc_cfg(c)
    # simulation: no VIEW, no invariants needed (the walk only produces inputs)
    t = t.replace("VIEW View\n", "")
    t = re.sub(r"INVARIANTS .*\n", "", t)
    t = re.sub(r"PROPERTIES .*\n", "", t)
    return t


def event_to_op(e):
    op = {"ev": e["ev"]}
    if e["ev"] == "BurstEnd":
        return {"ev": "Burst", "n": e["a"]["writers"]}
    if e["ev"] == "Open" and "oks" in (e.get("x") or {}):
        return {"ev": "OpenRace"}
    if e["ev"] == "Open" and (e.get("x") or {}).get("race"):
        return {"ev": "CloseOpenRace"}
    op.update(e.get("a") or {})
    for k in ("src", "punch", "cp"):
        op.pop(k, None)
    if e["ev"] == "SyncFile":
        op["blocks"] = [(d[0] if d else 0) for d in op.pop("data", [])]
    if e["ev"] == "WriteStride":
        op["n"] = op.pop("count")
    return op


def nontrivial(prop, evs):
    """does an execution exercise the property beyond plain reads?"""
    names = [e["ev"] for e in evs]
    need = {"C01": {"Write"}, "C06": {"Snapshot", "Revert"}, "C10": {"Write"}, "C11": DELETE_EVS,
            "C12": {"Snapshot", "Revert", "RemoveDisk", "PrepareRemove", "ReplaceDisk"}, "C16": {"Resize"},
            "C17": {"SetMode", "Close", "Open"}}[prop]
    return any(n in need for n in names)


def run(prop, tier, seed, replay=None, embed=False):
    """embed (prop = "C07"): the replica's side of a rebuild for the cluster family's C07 check -- only
    the generator profile 'rebuild', no model checking here, no evidence file, no verdict lines;
    returns (violations, known, stats)"""
    t0 = time.time()
    quick = tier == "quick"
    if replay is not None and prop == "C17" and (json.load(open(replay)).get("scenario") or {}).get("layer") == "REST":
        import fam_rest
        vm, _ = fam_rest.matrix_part(tier, seed)      # the whole matrix is re-run (a minute)
        for path, rec in vm:
            print("VIOLATION property=C17 replay=%s" % path)
        return 1 if vm else 0
    if replay is not None and prop == "C16" and (json.load(open(replay)).get("scenario") or {}).get("layer") == "L3":
        import fam_fs
        v, k, st = fam_fs.run("C16", tier, seed, only_ops={"resize"})     # the whole resize enumeration is re-run (seconds)
        for path, rec in v:
            print("VIOLATION property=C16 replay=%s" % path)
        return 1 if v else 0
    if replay is not None and prop in ("C01", "C16") and (json.load(open(replay)).get("scenario") or {}).get("layer") == "L1":
        import fam_controller
        v, k, st = fam_controller.run(prop, tier, seed, replay=replay, embed=True)
        for path, rec in v:
            print("VIOLATION property=%s replay=%s" % (prop, path))
        return 1 if v else 0
    build_harness(["replicadrv"])
    work = scratch("rep.")
    assumptions = [
        "one replica.Server per driver process; calls are sequential (the linearization point of every action is the call's return); concurrency of the puncher is explored in the model, quiesced in the driver",
        "data written by drivers is one stamp byte per 512-byte sector; volumes of 2..16 blocks of 4 KiB",
        "backing files, quorum-type replicas, ReplaceDisk, Delete/DeleteAll are outside the model",
        "Reload is only issued with no punch in flight",
    ]
    try:
        mc_states = mc_trans = 0
        mc_runs = []
        if replay is None and not embed and not os.environ.get("VERIF_DEV_SKIP_MC"):
            # ---- (A) exhaustive model checking
            for c in MC[prop]["quick" if quick else "thorough"]:
                r = run_tlc_mc("MCReplica", mc_cfg(c), timeout=900 if quick else 7200)
                if not r["ok"]:
                    raise HarnessError("the specification itself violates %s in the bounded model:\n%s"
                                       % (r["violated"], r["out"][-6000:]))
                mc_states += r["distinct"]
                mc_trans += r["generated"]
                mc_runs.append(dict(constants={k: (sorted(v, key=str) if isinstance(v, (set, frozenset)) else v)
                                               for k, v in c.items()},
                                    distinct=r["distinct"], generated=r["generated"], depth=r["depth"],
                                    wall_s=round(r["wall"], 1)))
                log("[mc] %s distinct=%d generated=%d %.0fs" % (prop, r["distinct"], r["generated"], r["wall"]))
            if not quick:
                for bug, expect, over in MC[prop]["mutants"]:
                    c = dict(REBUILD_CFG) if over == "rebuild" else dict(MC[prop]["quick"][0])
                    over = {} if over == "rebuild" else dict(over)
                    c["MaxRev"] = max(c["MaxRev"], 5)
                    c["Ops"] = set(c["Ops"]) | set(over.pop("AddOps", set()))
                    c.update(over)
                    c["Bug"] = {bug}
                    r = run_tlc_mc("MCReplica", mc_cfg(c), timeout=1800)
                    if r["ok"] or not re.search(expect, r["violated"] or ""):
                        raise HarnessError("self-check failed: mutant %s was not refuted (%s)" % (bug, r["violated"]))
                    mc_runs.append(dict(mutant=bug, refuted_by=r["violated"]))
                    log("[mc] mutant %s refuted by %s" % (bug, r["violated"]))

        # ---- (B) scenarios + execution on the real code
        trace = os.path.join(work, "trace.ndjson")
        parts = []
        if replay is not None:
            rp = json.load(open(replay))
            scf = os.path.join(work, "replay.ndjson")
            with open(scf, "w") as f:
                f.write(json.dumps(rp["scenario"]) + "\n")
            cmds = [[os.path.join(BUILD, "replicadrv"), "-in", scf, "-out", os.path.join(work, "t0.ndjson"),
                     "-work", os.path.join(work, "p0")]]
            m = re.match(r"cleanerloop:foldfail=\w+:seed=(\d+)", rp["scenario"].get("src0", ""))
            if m:       # a round of the real background cleaner: re-run it (about 65 s)
                cmds = [[os.path.join(BUILD, "replicadrv"), "-cleanerloop", "1", "-base", str(rp["scenario"]["id"]),
                         "-seed", m.group(1), "-out", os.path.join(work, "t0.ndjson"), "-work", os.path.join(work, "p0")]]
            parts = [os.path.join(work, "t0.ndjson")]
            os.makedirs(os.path.join(work, "p0"))
        else:
            nproc = min(NCPU * 2, 32)
            per = 3 if quick else 40
            length = 14 if quick else 25
            nsim = 24 if quick else 400
            sims = [] if embed else behaviours_to_scenarios(
                run_tlc_simulate("MCReplica", sim_cfg(SIM_OPS[prop]), nsim, 18 if quick else 30, seed), 100000)
            if embed:
                nproc, per = (12, 2) if quick else (24, 20)
            cmds = []
            for i in range(nproc):
                pdir = os.path.join(work, "p%d" % i)
                os.makedirs(pdir)
                out = os.path.join(work, "t%d.ndjson" % i)
                parts.append(out)
                prof = "rebuild" if embed else PROFILE[prop]
                if prop == "C11" and i % 2 == 1:
                    prof = "shapes"         # uniform sample of chain shapes x checkpoint positions
                if prop in ("C01", "C06", "C10") and i % 4 == 3:
                    prof = "rebuild"        # the replica's side of a rebuild (sync, reload, UpdateLUNMap)
                cmd = [os.path.join(BUILD, "replicadrv"), "-out", out, "-work", pdir,
                       "-gen", str(per), "-len", str(length), "-seed", str(seed * 1000 + i),
                       "-base", str(i * 1000), "-profile", prof]
                mine = sims[i::nproc]
                if i == 0 and not embed:      # hand-written sequences (name reuse, multi-owner writes, revert + collision)
                    for line in open(os.path.join(VERIF, "scenarios", "replica_directed.ndjson")):
                        if line.strip():
                            mine = mine + [json.loads(line)]
                if mine:
                    scf = os.path.join(work, "s%d.ndjson" % i)
                    with open(scf, "w") as f:
                        for sc in mine:
                            f.write(json.dumps(sc) + "\n")
                    cmd += ["-in", scf]
                cmds.append(cmd)
            if prop == "C11" and not embed:
                # the REAL background cleaner (timer, checkpoint comparison, retention, prepare ->
                # coalesce -> remove) against a stub controller and a stub sync agent; one round with
                # a successful merge and one in which the merge fails (each waits for the 60 s timer)
                for j in range(2 if quick else 6):
                    pdir = os.path.join(work, "pc%d" % j)
                    os.makedirs(pdir)
                    out = os.path.join(work, "tc%d.ndjson" % j)
                    parts.append(out)
                    cmds.append([os.path.join(BUILD, "replicadrv"), "-out", out, "-work", pdir, "-cleanerloop", "1",
                                 "-base", str(700000 + j), "-seed", str(seed * 1000 + 900 + j)])
        res = run_parallel(cmds, timeout=600 if quick else 5400)
        for (rc, out), c in zip(res, cmds):
            if rc == 3:
                log("[exec] a driver recorded a hang of the engine: " + out[-200:].strip())
                continue
            if rc != 0:
                raise HarnessError("driver failed rc=%s: %s\n%s" % (rc, " ".join(c), out[-3000:]))
        with open(trace, "w") as tf:
            for p in parts:
                with open(p) as f:
                    shutil.copyfileobj(f, tf)

        # ---- (C) trace validation
        maxnb = 16
        if replay is not None:
            maxnb = max(16, int(json.load(open(replay))["scenario"].get("nb", 0)))
        result = run_tlc_trace("ReplicaTrace", {"MaxNB": maxnb, "SPB": 8, "Bug": "{}"}, trace,
                               timeout=900 if quick else 5400)
        if result["consumed"] != result["records"]:
            raise HarnessError("trace validation consumed %d of %d records" % (result["consumed"], result["records"]))
        big_trace, big_stats = None, None
        if prop == "C01" and replay is None and not embed:
            # volumes of thousands of blocks (files fragmented into more than 1024 extents: the
            # extent listing comes in batches): hand-written executions with composite write
            # records, validated in a run of their own (the block-indexed functions of the
            # specification are that much larger)
            big_trace = os.path.join(work, "tbig.ndjson")
            os.makedirs(os.path.join(work, "pbig"))
            (rc, out), = run_parallel([[os.path.join(BUILD, "replicadrv"), "-out", big_trace, "-work", os.path.join(work, "pbig"),
                                        "-in", os.path.join(VERIF, "scenarios", "replica_big.ndjson")]], timeout=600)
            if rc != 0:
                raise HarnessError("driver failed on the large-volume scenarios rc=%s\n%s" % (rc, out[-2000:]))
            nbmax = max(json.loads(l)["nb"] for l in open(os.path.join(VERIF, "scenarios", "replica_big.ndjson")) if l.strip())
            rbig = run_tlc_trace("ReplicaTrace", {"MaxNB": nbmax, "SPB": 8, "Bug": "{}"}, big_trace, timeout=1800)
            if rbig["consumed"] != rbig["records"]:
                raise HarnessError("trace validation (large volumes) consumed %d of %d records" % (rbig["consumed"], rbig["records"]))
            result["failed"] = list(result["failed"]) + list(rbig["failed"])
            result["records"] += rbig["records"]
            result["traces"] += rbig["traces"]
            big_stats = dict(executions=rbig["traces"], records=rbig["records"], blocks=nbmax)

        # group recorded events by execution for replay files / samples
        by_t = {}
        for tfile in [trace] + ([big_trace] if big_trace else []):
            with open(tfile) as f:
                for line in f:
                    e = json.loads(line)
                    by_t.setdefault(e["t"], []).append(e)

        violations, known, others, unexplained = [], [], [], []
        for f_ in result["failed"]:
            if "SpecNotEnabled" in f_["rules"]:
                # the specification cannot take the recorded step at all: inconclusive for this
                # execution (exit 2 at the end unless another execution shows a violation)
                unexplained.append(f_)
                continue
            props = attribute(f_)
            # history attribution: wrong data / a refused I/O after an earlier successful grow
            # (revert) in the same execution is also C16's (C06's) business
            hist = [e for e in by_t[f_["t"]] if e["seq"] < f_["seq"] and e["res"] == "ok"]
            datafail = (set(f_["rules"]) & {"ReadData", "LiveIsRef", "DirData", "UserSnapImmutable"}) or \
                       ("Result" in f_["rules"] and f_["ev"] in ("Read", "Write"))
            if datafail and any(e["ev"] == "Resize" and e["a"]["nb"] > by_t[f_["t"]][0]["a"]["nb"] for e in hist):
                props.add("C16")
            if datafail and any(e["ev"] == "Revert" for e in hist):
                props.add("C06")
            # a retained user snapshot / the live image damaged after an earlier deletion in the
            # same execution (the deletion's bookkeeping is a suspect): also C11's business
            if (set(f_["rules"]) & {"DirData", "UserSnapImmutable", "LiveIsRef", "ReadData"}) and \
                    any(e["ev"] == "RemoveDisk" for e in hist):
                props.add("C11")
            # wrong data / counter / chain once the sync agent has rewritten the files: the rebuilt
            # replica is not what it was rebuilt from (C07)
            if any(e["ev"] == "SyncFile" for e in hist) and \
                    (datafail or set(f_["rules"]) & (STRUCT_RULES | {"Rev", "Result"})):
                props.add("C07")
            sig = dict(rule=sorted(f_["rules"]), site=f_["ev"], context=context_of(f_))
            if prop not in props:
                others.append(dict(t=f_["t"], seq=f_["seq"], sig=sig, properties=sorted(props)))
                continue
            evs = by_t[f_["t"]]
            init = evs[0]
            scenario = dict(id=f_["t"], nb=init["a"]["nb"], punch=init["a"]["punch"], src="replay", layer="L0",
                            src0=init["a"].get("src", ""),
                            ops=[event_to_op(e) for e in evs[1:] if e["seq"] <= f_["seq"] and not e.get("partial")])
            k = match_known(prop, sig)
            rec = dict(property=prop, signature=sig, failed_record=f_, scenario=scenario)
            if k:
                known.append((k, rec))
            else:
                path = save_replay(prop, "%s-%s" % (tier, fingerprint(scenario)), rec)
                violations.append((path, rec))

        l1 = None
        if prop == "C16" and replay is None and not embed:
            # the controller's grow (harness L1): all replicas RW, one replica failing its resize, a
            # grow during a rebuild; every replica in service must end up with the new size
            import fam_controller
            v1, k1, l1 = fam_controller.run("C16", tier, seed, embed=True)
            violations += v1
            known += k1
            # a grow that is cut short: every directory-changing call of Resize is a kill boundary and
            # fails once with ENOSPC / EIO (harness L3, the C08 machinery restricted to resize); the
            # recorded size must never run ahead of the files
            import fam_fs
            v3, k3, l3 = fam_fs.run("C16", tier, seed, only_ops={"resize"})
            violations += v3
            known += k3
        if prop == "C17" and replay is None and not embed:
            # REST half of C17: the replica's state x action table on the real router (harness L5)
            import fam_rest
            vm, l1 = fam_rest.matrix_part(tier, seed)
            violations += vm
        if prop == "C01" and replay is None and not embed:
            # the controller's range check (harness L1): out-of-range reads and writes in every
            # membership of a bootstrap; refused, no replica touched, nothing changed
            import fam_controller
            v1, k1, l1 = fam_controller.run("C01", tier, seed, embed=True)
            violations += v1
            known += k1
        if embed:
            if unexplained and not violations:
                raise HarnessError("specification has no step for %d record(s), first: %s"
                                   % (len(unexplained), json.dumps(unexplained[0])[:3000]))
            cnt = lambda ev: sum(1 for evs in by_t.values() for e in evs if e["ev"] == ev and e["res"] == "ok")
            return violations, known, dict(executions=result["traces"], records=result["records"],
                                           files_synced=cnt("SyncFile"), reloads=cnt("Reload"),
                                           lunmap_updates=cnt("UpdateLUNMap") + cnt("LunMapMerge"),
                                           lunmap_updates_with_io_between_sections=cnt("LunMapMerge"),
                                           other_property_failures=len(others))
        # ---- evidence
        fps, nontriv = set(), set()
        samples = []
        for t, evs in by_t.items():
            ops = [event_to_op(e) for e in evs[1:] if not e.get("partial")]
            fp = fingerprint(ops)
            fps.add(fp)
            if nontrivial(prop, evs):
                nontriv.add(fp)
            if len(samples) < 3 and nontrivial(prop, evs):
                samples.append(dict(init=evs[0]["a"], ops=ops[:30],
                                    results=[e["res"] for e in evs[1:31]]))
        evcount = {}
        for evs in by_t.values():
            for e in evs:
                evcount[e["ev"] + ":" + e["res"]] = evcount.get(e["ev"] + ":" + e["res"], 0) + 1
        coverage = dict(
            states=mc_states, transitions=mc_trans,
            traces_validated_against_impl=result["traces"],
            samples=samples or [dict(note="no non-trivial sample")],
            evaluations=result["traces"], distinct_nontrivial=len(nontriv),
            rule="an execution = one scenario (TLC random walk of MCReplica or seeded generator profile '%s') run on the real replica.Server; distinct = distinct operation sequence; non-trivial = contains at least one operation of the property's family" % PROFILE[prop],
            records_validated=result["records"], events_by_result=evcount, model_checking_runs=mc_runs,
            failures_in_scope=len(violations) + len(known), failures_other_properties=others[:20],
            exhaustive=False)
        if l1:
            coverage["rest_matrix_part_L5" if prop == "C17" else "controller_part_L1"] = l1
        if big_stats:
            coverage["large_volume_part"] = big_stats
        if prop == "C16" and replay is None and not embed:
            coverage["interrupted_grow_part_L3"] = l3
        if replay is not None:
            coverage["states"] = coverage["states"] or 1
            coverage["transitions"] = coverage["transitions"] or 1
        write_evidence(prop, tier, seed, "model_checking", coverage, assumptions, time.time() - t0,
                       len(violations))
        for k, rec in known:
            print("KNOWN-FINDING: property=%s %s" % (prop, k.get("what", "")))
        for path, rec in violations:
            print("VIOLATION property=%s replay=%s" % (prop, path))
            s = rec["signature"]
            fr = rec.get("failed_record") or {}
            print("  rule=%s site=%s context=%s logged=%s spec=%s" % (
                ",".join(s["rule"]), s["site"], s["context"], (fr.get("logged") or {}).get("res", "-"),
                (fr.get("spec") or {}).get("res", "-")))
        log("[%s] %s: %d executions, %d records, %d violations, %d known, %d other-property failures, %.0fs" % (
            prop, tier, result["traces"], result["records"], len(violations), len(known), len(others),
            time.time() - t0))
        for o in others[:4]:
            log("[other-property failure] t=%s seq=%s %s -> %s" % (o["t"], o["seq"], json.dumps(o["sig"]), o["properties"]))
        if unexplained and not violations:
            raise HarnessError("specification has no step for %d record(s), first: %s"
                               % (len(unexplained), json.dumps(unexplained[0])[:3000]))
        return 1 if violations else 0
    finally:
        shutil.rmtree(work, ignore_errors=True)
