"""Management API family: C14 (and the REST half of C17) (DESIGN.md 3.6, 5).
(A) TLC checks RestApi.tla (handler lock programs, bounded signal queue, two requests in flight);
(B) the real REST routers of the controller and of a replica are served from child processes
    (ctrldrv -serve, brought into a state by a scenario prefix) and fuzzed: every route x method x
    body class x id encoding; after every request the child is probed (alive, mutex free through
    TryLock inside the child, liveness request, replica state);
(C) TLC evaluates the rules of RestTrace.tla on the recorded requests."""
import base64, http.client, json, os, random, re, shutil, socket, subprocess, time
from vlib import *

FAMILY = ["C14"]

ADDR = lambda w, k: "127.%d.0.%d" % (60 + w, k)


def enc(s):
    return base64.b64encode(s.encode()).decode()


def mc_cfg(bug=None):
    return ("SPECIFICATION Spec\nCONSTANTS\n  Bug = {%s}\n  MaxReq = 7\nINVARIANTS NoDoubleUnlock NoLockLeak NoBlockedHandler NoSelfDeadlock NoRWDeadlock\n"
            "PROPERTIES StillServes\nCHECK_DEADLOCK FALSE\n" % (('"%s"' % bug) if bug else ""))


# (method, path template, valid body or None, needs a parsable body, replica action name)
def controller_routes(vol, rep):
    V, R = "/v1/volumes/" + vol, "/v1/replicas/" + rep
    return [
        ("GET", "/v1/volumes", None, False), ("GET", V, None, False), ("GET", "/v1/stats", None, False),
        ("GET", "/v1/checkpoint", None, False), ("GET", "/v1/replicas", None, False), ("GET", R, None, False),
        ("GET", "/v1/schemas", None, False), ("GET", "/metrics", None, False),
        ("POST", V + "?action=snapshot", {"name": "fz1"}, True),
        ("POST", V + "?action=revert", {"name": "nosuch"}, True),
        ("POST", V + "?action=resize", {"name": "vol", "size": "262144"}, True),
        ("POST", V + "?action=setlogging", {"enable": True, "maxlogfilesize": 1, "retentionperiod": 1, "maxbackups": 1}, True),
        ("POST", V + "?action=start", {"replicas": ["tcp://127.9.9.9:9502"]}, True),
        ("DELETE", V + "?action=deleteSnapshot", {"name": "nosuch"}, True),
        ("POST", "/v1/register", {"address": "127.9.9.9", "UUID": "u", "revCount": "1", "repType": "Backend", "upTime": 1, "repState": "closed"}, True),
        ("POST", "/v1/replicas", {"address": "tcp://127.9.9.9:9502"}, True),
        ("POST", "/v1/quorumreplicas", {"address": "tcp://127.9.9.8:9502"}, True),
        ("POST", R + "?action=preparerebuild", None, False), ("POST", R + "?action=verifyrebuild", None, False),
        ("PUT", R, {"mode": "ERR"}, False), ("DELETE", R, None, False),
        ("POST", "/v1/journal", {"limit": 1}, False), ("POST", "/timeout", {"timeout": "0", "rpcPingTimeout": "0"}, False),
        ("POST", V + "?action=shutdown", None, False), ("POST", "/v1/delete", None, False),
    ]


REPLICA_ACTIONS = ["start", "reload", "updatecloneinfo", "snapshot", "open", "close", "resize", "removedisk",
                   "replacedisk", "setrebuilding", "setlogging", "create", "revert", "prepareremovedisk",
                   "setrevisioncounter", "setreplicamode", "setcheckpoint"]
REPLICA_BODY = {
    "start": {"Action": "start"}, "updatecloneinfo": {"snapname": "x", "revisioncounter": "1"},
    "snapshot": {"name": "fz", "usercreated": True, "created": "2026"}, "resize": {"name": "vol", "size": "262144"},
    "removedisk": {"name": "volume-snap-nosuch.img"}, "replacedisk": {"target": "a", "source": "b"},
    "setrebuilding": {"rebuilding": True}, "setlogging": {"logtofile": {"enable": False}}, "create": {"size": "16384"},
    "revert": {"name": "volume-snap-nosuch.img", "created": "2026"}, "prepareremovedisk": {"name": "nosuch"},
    "setrevisioncounter": {"counter": "7"}, "setreplicamode": {"mode": "RW"}, "setcheckpoint": {"snapshotName": "x"},
}


def replica_routes():
    R = "/v1/replicas/1"
    rs = [("GET", "/ping", None, False, ""), ("GET", "/v1/replicas", None, False, ""), ("GET", R, None, False, ""),
          ("GET", R + "/volusage", None, False, ""), ("GET", "/v1/stats", None, False, ""),
          ("GET", "/v1/rebuildinfo", None, False, ""), ("DELETE", "/v1/delete", None, False, ""),
          ("DELETE", R, None, False, "")]
    for a in REPLICA_ACTIONS:
        body = REPLICA_BODY.get(a)
        rs.append(("POST", R + "?action=" + a, body, body is not None and a not in ("setlogging",), a))
    return rs


def bodies(valid, rng):
    """body classes: (class, bytes)"""
    out = [("valid", json.dumps(valid).encode() if valid is not None else b"")]
    out.append(("empty", b""))
    if valid is not None:
        s = json.dumps(valid)
        out.append(("truncated", s[:max(1, len(s) * rng.randint(1, 2) // 3)].encode()))
        wrong = {k: (12345 if isinstance(v, str) else "str" if not isinstance(v, list) else 7) for k, v in valid.items()}
        out.append(("wrongtype", json.dumps(wrong).encode()))
        huge = {k: (2 ** 63 if not isinstance(v, str) else "9" * 40) for k, v in valid.items()}
        out.append(("hugenumber", json.dumps(huge).encode()))
    out.append(("notjson", b"\x00\xff<<>>not json at all"))
    out.append(("oversized", b'{"name":"' + b"A" * (1 << 20) + b'"}'))
    out.append(("null", b"null"))
    return out


class Child:
    def __init__(self, work, worker, side, state):
        self.work, self.worker, self.side, self.state = work, worker, side, state
        self.proc = None
        self.host = ADDR(worker, 1)
        self.port = 9501 if side == "controller" else 9602
        self.starts = 0

    def scenario(self):
        ops = []
        if self.side == "controller":
            if self.state in ("attached", "faulty"):
                ops = [{"ev": "Register", "a": "a1"}, {"ev": "Register", "a": "a2"}, {"ev": "Start", "a": "a1"},
                       {"ev": "Add", "a": "a2"}, {"ev": "RebuildCopy", "a": "a2", "src": "a1"}, {"ev": "Verify", "a": "a2"},
                       {"ev": "Write"}, {"ev": "Snapshot", "name": "s1"}]
        else:
            if self.state in ("open", "dirty", "rebuilding"):
                ops = [{"ev": "Register", "a": "a1"}, {"ev": "Register", "a": "a2"}, {"ev": "Start", "a": "a1"}]
                if self.state != "open":
                    ops += [{"ev": "Add", "a": "a2"}, {"ev": "RebuildCopy", "a": "a2", "src": "a1"}, {"ev": "Verify", "a": "a2"},
                            {"ev": "Write"}]
                if self.state == "rebuilding":
                    ops = ops[:4] + [{"ev": "RebuildCopy", "a": "a2", "src": "a1"}]
        return {"id": 1, "rf": 2, "n": 3, "src": "serve", "ops": ops}

    def target(self):
        if self.side == "controller":
            return "controller"
        return {"closed": "a3", "open": "a1", "dirty": "a1", "rebuilding": "a2"}[self.state]

    def start(self):
        self.stop()
        self.starts += 1
        d = os.path.join(self.work, "c%d_%d" % (self.worker, self.starts))
        os.makedirs(d, exist_ok=True)
        scf = os.path.join(d, "sc.ndjson")
        open(scf, "w").write(json.dumps(self.scenario()) + "\n")
        self.log = open(os.path.join(d, "child.log"), "w")
        self.proc = subprocess.Popen([os.path.join(BUILD, "ctrldrv"), "-in", scf, "-work", d, "-out", os.path.join(d, "t.ndjson"),
                                      "-worker", str(50 + self.worker * 4 + (self.starts % 4)), "-serve", self.target(),
                                      "-listen", "%s:%d" % (self.host, self.port)],
                                     stdout=self.log, stderr=subprocess.STDOUT)
        for _ in range(300):
            if self.proc.poll() is not None:
                raise HarnessError("REST child exited during set-up: " + open(self.log.name).read()[-1500:])
            try:
                s = socket.create_connection((self.host, self.port), timeout=0.2)
                s.close()
                self.arm()
                return
            except OSError:
                time.sleep(0.1)
        raise HarnessError("REST child did not come up")

    def arm(self):
        """state 'faulty': every management request the controller sends to replica a2 fails"""
        if self.side == "controller" and self.state == "faulty":
            st, _ = self.request("GET", "/verif/arm?node=a2&key=rest:*", None, timeout=5)
            if st != 200:
                raise HarnessError("could not arm the REST fault")

    def stop(self):
        if self.proc is not None:
            self.proc.kill()
            self.proc.wait()
            self.proc = None

    def alive(self):
        return self.proc is not None and self.proc.poll() is None

    def request(self, method, path, body, timeout=8):
        try:
            c = http.client.HTTPConnection(self.host, self.port, timeout=timeout)
            hdr = {"Content-Type": "application/json"} if body else {}
            c.request(method, path, body=body or None, headers=hdr)
            r = c.getresponse()
            data = r.read()
            c.close()
            return r.status, data
        except Exception as e:
            return -1, str(e).encode()

    def state_now(self):
        st, data = self.request("GET", "/verif/state", None, timeout=5)
        try:
            return json.loads(data) if st == 200 else {}
        except Exception:
            return {}


DISRUPTIVE = ("action=shutdown", "/v1/delete", "action=close", "action=open", "action=create", "action=revert",
              "action=reload", "DELETE", "action=start", "action=snapshot", "action=resize", "action=setrebuilding",
              "action=setreplicamode", "PUT", "action=verifyrebuild", "action=removedisk", "action=replacedisk", "action=updatecloneinfo")


def plan(side, state, rng, quick):
    reqs = []
    if side == "controller":
        vol = enc("vol")
        rep = enc("tcp://127.%d.1.2:9502" % 0)     # patched per child below
        routes = [(m, p, b, nb, "") for (m, p, b, nb) in controller_routes(vol, "@REP@")]
    else:
        routes = replica_routes()
    for (m, p, valid, needs, action) in routes:
        for cls, body in bodies(valid, rng):
            if m == "GET" and cls not in ("valid", "notjson"):
                continue
            reqs.append(dict(method=m, path=p, cls=cls, body=body, needs=needs, action=action, idok=True))
        # id encodings
        if "/v1/volumes/" in p or "/v1/replicas/" in p:
            for badid in ("%25%25", "bm9zdWNo", "", "A" * 300):
                q = re.sub(r"/v1/(volumes|replicas)/[^?/]*", lambda mo: "/v1/%s/%s" % (mo.group(1), badid), p)
                reqs.append(dict(method=m, path=q, cls="badid", body=json.dumps(valid).encode() if valid else b"",
                                 needs=False, action=action, idok=False))
    # methods the router does not offer
    for m in ("PATCH", "HEAD", "OPTIONS"):
        reqs.append(dict(method=m, path=routes[0][1], cls="valid", body=b"", needs=False, action="", idok=True))
    rng.shuffle(reqs)
    if quick:
        # every route with its valid body (these reach deepest), then a sample of the rest
        valid = [r for r in reqs if r["cls"] == "valid" and r["idok"]]
        rest = [r for r in reqs if not (r["cls"] == "valid" and r["idok"])]
        reqs = valid + rest[:max(0, 80 - len(valid))]
        rng.shuffle(reqs)
    # two-step interactions: every ordered pair of a few state-changing requests, no restart in between
    # (a request that leaves the replica in a state the next one stumbles over)
    if side == "replica" and state in ("open", "dirty"):
        steppers = [r for r in routes if r[4] in ("updatecloneinfo", "reload", "setrebuilding", "revert", "snapshot", "setcheckpoint")]
        pairs = [(a, b) for a in steppers for b in steppers if a is not b]
        rng.shuffle(pairs)
        for a, b in pairs[:(10 if quick else 30)]:
            for k, (m, p, valid, needs, action) in enumerate((a, b)):
                reqs.append(dict(method=m, path=p, cls="valid", body=json.dumps(valid).encode() if valid else b"",
                                 needs=False, action=action, idok=True, norestart=(k == 0), restart_after=(k == 1)))
    # request sequences: the same signal / request several times in a row without a restart in between
    for (m, p, valid, needs, action) in routes:
        if action in ("start", "setlogging", "prepareremovedisk") or p.endswith("/v1/register") or "action=snapshot" in p:
            for i in range(7):
                reqs.append(dict(method=m, path=p, cls="valid", body=json.dumps(valid).encode() if valid else b"",
                                 needs=False, action=action, idok=True, norestart=True))
    return reqs


def storm(ch, side, state, worker, rng, quick):
    """concurrency phase: several clients send well-formed, non-disruptive requests (readers of the
    server mutex and writers of it) at the same time; afterwards the server must be alive, its mutex
    free and the liveness request served.  One record per round."""
    from concurrent.futures import ThreadPoolExecutor
    if not ch.alive():
        ch.start()
    if side == "controller":
        vol = "/v1/volumes/" + enc("vol")
        reqs = [("GET", "/v1/volumes", None), ("GET", vol, None), ("GET", "/v1/stats", None), ("GET", "/v1/checkpoint", None),
                ("GET", "/v1/replicas", None), ("POST", vol + "?action=setlogging", {"enable": False}),
                ("POST", "/v1/journal", {"limit": 1}), ("GET", "/metrics", None),
                ("DELETE", vol + "?action=deleteSnapshot", {"name": "nosuch"}),
                ("POST", vol + "?action=revert", {"name": "nosuch"})]
    else:
        R = "/v1/replicas/1"
        mode = (ch.state_now() or {}).get("mode") or "RW"
        reqs = [("GET", "/ping", None), ("GET", "/v1/replicas", None), ("GET", R, None), ("GET", R + "/volusage", None),
                ("GET", "/v1/stats", None), ("GET", "/v1/rebuildinfo", None),
                ("POST", R + "?action=setreplicamode", {"mode": mode if mode in ("RW", "WO") else "RW"}),
                ("POST", R + "?action=setlogging", {"enable": False}),
                ("POST", R + "?action=prepareremovedisk", {"name": "nosuch"}),
                ("POST", R + "?action=setcheckpoint", {"snapshotName": "x"})]   # (nothing that drains the hole queue: 1 s each)
    events = []
    for rnd in range(2 if quick else 6):
        if not ch.alive():
            ch.start()
        before = ch.state_now()

        def client(i):
            r = random.Random(rng.random() + i)
            lost = 0
            for _ in range(40 if quick else 120):
                m, p, b = reqs[r.randrange(len(reqs))]
                st, _ = ch.request(m, p, json.dumps(b).encode() if b is not None else None, timeout=6)
                if st == -1:
                    lost += 1
                    if lost >= 2:
                        break
            return lost
        with ThreadPoolExecutor(max_workers=8) as ex:
            lost = sum(ex.map(client, range(8)))
        alive = ch.alive()
        lockfree = probe = False
        after = {}
        if alive:
            lockfree = ch.request("GET", "/verif/trylock", None, timeout=6)[0] == 200
            probe = ch.request("GET", "/v1/replicas" if side == "controller" else "/ping", None, timeout=6)[0] == 200
            after = ch.state_now()
        events.append(dict(n=worker * 100000 + 90000 + rnd, side=side, state=state, method="STORM", path="8 clients x mixed requests",
                           **{"class": "valid"}, status=(-1 if (lost and not (lockfree and probe)) else 200), alive=alive,
                           lockfree=lockfree, probe=probe,
                           needsbody=False, action="", idok=True, before=(before.get("state") or ""),
                           after=(after.get("state") or ""), exit=(ch.proc.poll() if not alive else 0), body="lost=%d" % lost))
        if not alive or not lockfree or not probe:
            ch.start()
    return events


def fuzz_one(work, worker, side, state, seed, quick):
    rng = random.Random(seed * 100 + worker)
    ch = Child(work, worker, side, state)
    ch.start()
    events = []
    try:
        reqs = plan(side, state, rng, quick)
        repaddr = None
        n = 0
        for rq in reqs:
            if not ch.alive():
                ch.start()
            path = rq["path"]
            if "@REP@" in path:
                st = ch.state_now()
                reps = sorted((st.get("replicas") or {}).keys())
                # the controller's replica ids are base64 of the address; take the first attached one
                addr = "tcp://127.%d.1.%d:9502" % (10 + 50 + worker * 4 + (ch.starts % 4), 2)
                path = path.replace("@REP@", enc(addr))
            before = ch.state_now()
            status, data = ch.request(rq["method"], path, rq["body"])
            time.sleep(0.01)
            alive = ch.alive()
            lockfree = probe = False
            after = {}
            if alive:
                ls, _ = ch.request("GET", "/verif/trylock", None, timeout=6)
                lockfree = ls == 200
                ps, _ = ch.request("GET", "/v1/replicas" if side == "controller" else "/ping", None, timeout=6)
                probe = ps == 200
                after = ch.state_now()
            n += 1
            events.append(dict(n=worker * 100000 + n, side=side, state=state, method=rq["method"], path=path[:200],
                               **{"class": rq["cls"]}, status=status, alive=alive, lockfree=lockfree, probe=probe,
                               needsbody=bool(rq["needs"]), action=rq["action"], idok=rq["idok"],
                               before=(before.get("state") or ""), after=(after.get("state") or ""),
                               exit=(ch.proc.poll() if not alive else 0), body=rq["body"][:120].decode("latin1")))
            disruptive = any(x in (rq["method"] + " " + path) for x in DISRUPTIVE) and 200 <= status < 300 \
                and not rq.get("norestart")
            if not alive or not lockfree or not probe or disruptive or rq.get("restart_after"):
                ch.start()      # back to the state under test
        events += storm(ch, side, state, worker, rng, quick)
        return events
    finally:
        ch.stop()


def matrix_part(tier, seed):
    """REST half of C17 (embedded in the replica family's C17 check): every replica action with its
    valid body in the four replica states; rule Matrix only (an action the state does not offer must be
    refused without a state change).  Returns (violations, stats)."""
    quick = tier == "quick"
    build_harness(["ctrldrv"])
    work = scratch("restm.")
    try:
        from concurrent.futures import ThreadPoolExecutor
        targets = [("replica", "closed"), ("replica", "open"), ("replica", "dirty"), ("replica", "rebuilding")]

        def one(i, side, st):
            rng = random.Random(seed * 100 + 70 + i)
            ch = Child(work, 20 + i, side, st)
            ch.start()
            events = []
            try:
                n = 0
                for (m, p, valid, needs, action) in replica_routes():
                    if not action:
                        continue
                    if not ch.alive():
                        ch.start()
                    before = ch.state_now()
                    body = json.dumps(valid).encode() if valid is not None else b""
                    status, _ = ch.request(m, p, body)
                    alive = ch.alive()
                    after = ch.state_now() if alive else {}
                    n += 1
                    events.append(dict(n=(20 + i) * 100000 + n, side=side, state=st, method=m, path=p, **{"class": "valid"},
                                       status=status, alive=alive, lockfree=True, probe=True, needsbody=False, action=action,
                                       idok=True, before=(before.get("state") or ""), after=(after.get("state") or ""),
                                       exit=0, body=body[:120].decode("latin1")))
                    if (before.get("state") or "") != (after.get("state") or "") or not alive or \
                            (200 <= status < 300 and any(x in p for x in ("close", "open", "create", "revert", "reload", "snapshot", "resize", "setre", "remove", "replace", "start", "update"))):
                        ch.start()
                return events
            finally:
                ch.stop()
        with ThreadPoolExecutor(max_workers=4) as ex:
            futs = [ex.submit(one, i, side, st) for i, (side, st) in enumerate(targets)]
            events = [e for f in futs for e in f.result()]
        tf = os.path.join(work, "restm.ndjson")
        with open(tf, "w") as f:
            for e in events:
                f.write(json.dumps(e) + "\n")
        result = run_tlc_trace("RestTrace", {"Bug": "{}", "MaxReq": 1}, tf, timeout=900, invariants=("Finish",))
        violations = []
        for f in result["failed"]:
            if "Matrix" not in f["rules"]:
                continue
            rq = f["req"]
            sig = dict(rule=["Matrix"], site="POST action=%s" % rq["action"], context="replica:%s" % rq["state"])
            rec = dict(property="C17", signature=sig, request=rq, scenario=dict(layer="REST"))
            violations.append((save_replay("C17", "%s-matrix-%s" % (tier, fingerprint(sig)), rec), rec))
        return violations, dict(requests=len(events), states=4, refused=sum(1 for e in events if not (200 <= e["status"] < 300)))
    finally:
        shutil.rmtree(work, ignore_errors=True)


def run(prop, tier, seed, replay=None):
    t0 = time.time()
    quick = tier == "quick"
    build_harness(["ctrldrv"])
    work = scratch("rest.")
    assumptions = [
        "the real routers (controller/rest, replica/rest) are served from a child process of the L1 harness brought into the state under test by a scenario prefix; /verif/trylock and /verif/state are harness endpoints in front of them",
        "byte-level body fuzzing is sampled: 6-8 body classes per route (valid, empty, truncated, wrong types, 2^63, 1 MiB, non-JSON, null) and 4 malformed id encodings",
        "states: controller without replicas / with RF=2 RW replicas / the same with every management request to one replica failing; replica closed, open, dirty, rebuilding",
    ]
    try:
        mc_states = mc_trans = 0
        mc_runs = []
        if replay is None and not os.environ.get("VERIF_DEV_SKIP_MC"):
            r = run_tlc_mc("RestApi", mc_cfg(), timeout=900)
            if not r["ok"]:
                raise HarnessError("RestApi.tla violates %s" % r["violated"])
            mc_states, mc_trans = r["distinct"], r["generated"]
            mc_runs.append(dict(distinct=r["distinct"], generated=r["generated"]))
            if not quick:
                for bug, expect in [("doubleUnlock", "NoDoubleUnlock"), ("blockingSend", "NoBlockedHandler|NoRWDeadlock"),
                                    ("relockOnError", "NoSelfDeadlock|NoRWDeadlock"), ("nestedRLock", "NoRWDeadlock")]:
                    r = run_tlc_mc("RestApi", mc_cfg(bug), timeout=900)
                    if r["ok"] or not re.search(expect, r["violated"] or ""):
                        raise HarnessError("self-check: mutant %s not refuted" % bug)
                    mc_runs.append(dict(mutant=bug, refuted_by=r["violated"]))
        targets = [("controller", "empty"), ("controller", "attached"), ("controller", "faulty"), ("replica", "closed"),
                   ("replica", "open"), ("replica", "dirty"), ("replica", "rebuilding")]
        events = []
        if replay is not None:
            rp = json.load(open(replay))
            rq = rp["request"]
            ch = Child(work, 1, rq["side"], rq["state"])
            ch.start()
            try:
                status, _ = ch.request(rq["method"], rq["path"], rq["body"].encode("latin1"))
                time.sleep(0.05)
                alive = ch.alive()
                lockfree = alive and ch.request("GET", "/verif/trylock", None, timeout=6)[0] == 200
                probe = alive and ch.request("GET", "/v1/replicas" if rq["side"] == "controller" else "/ping", None, timeout=6)[0] == 200
                after = ch.state_now() if alive else {}
                e = dict(rq)
                e.update(status=status, alive=alive, lockfree=bool(lockfree), probe=bool(probe), after=after.get("state") or "")
                events = [e]
            finally:
                ch.stop()
        else:
            from concurrent.futures import ThreadPoolExecutor
            with ThreadPoolExecutor(max_workers=len(targets)) as ex:
                futs = [ex.submit(fuzz_one, work, i + 1, side, st, seed, quick) for i, (side, st) in enumerate(targets)]
                for f in futs:
                    events += f.result()
        tf = os.path.join(work, "rest.ndjson")
        with open(tf, "w") as f:
            for e in events:
                f.write(json.dumps(e) + "\n")
        result = run_tlc_trace("RestTrace", {"Bug": "{}", "MaxReq": 1}, tf, timeout=1800, invariants=("Finish",))
        if result["consumed"] != result["records"]:
            raise HarnessError("RestTrace consumed %d of %d" % (result["consumed"], result["records"]))
        violations, known = [], []
        for f in result["failed"]:
            rq = f["req"]
            route = re.sub(r"/v1/(volumes|replicas)/[^?/]*", r"/v1/\1/{id}", rq["path"])
            sig = dict(rule=sorted(f["rules"]), site="%s %s" % (rq["method"], route),
                       context="%s:%s body=%s" % (rq["side"], rq["state"], rq["class"]))
            rec = dict(property=prop, signature=sig, request=rq)
            k = match_known(prop, sig)
            if k:
                known.append((k, rec))
            else:
                violations.append((save_replay(prop, "%s-%s" % (tier, fingerprint([sig, rq["body"][:40]])), rec), rec))
        distinct = len({(e["side"], e["state"], e["method"], re.sub(r"/v1/(volumes|replicas)/[^?/]*", r"/v1/\1/{id}", e["path"]), e["class"]) for e in events})
        coverage = dict(states=mc_states or 1, transitions=mc_trans or 1, traces_validated_against_impl=len(events),
                        samples=[{k: e[k] for k in ("side", "state", "method", "path", "class", "status", "alive", "lockfree", "probe")} for e in events[:5]],
                        evaluations=len(events), distinct_nontrivial=distinct,
                        rule="one evaluation = one HTTP request to the real router in one of six states, followed by the probes; distinct = distinct (side, state, method, route, body class)",
                        status_histogram={str(s): sum(1 for e in events if e["status"] == s) for s in sorted({e["status"] for e in events})},
                        child_deaths=sum(1 for e in events if not e["alive"]), model_checking_runs=mc_runs, exhaustive=False)
        write_evidence(prop, tier, seed, "model_checking", coverage, assumptions, time.time() - t0, len(violations))
        seen = set()
        for k, rec in known:
            if k.get("what") not in seen:
                print("KNOWN-FINDING: property=%s %s" % (prop, k.get("what", "")))
                seen.add(k.get("what"))
        shown = set()
        for path, rec in violations:
            print("VIOLATION property=%s replay=%s" % (prop, path))
            s = rec["signature"]
            key = (tuple(s["rule"]), s["site"])
            if key not in shown:
                shown.add(key)
                print("  rule=%s site=%s context=%s status=%s" % (",".join(s["rule"]), s["site"], s["context"], rec["request"]["status"]))
        log("[%s] %s: %d requests (%d distinct), %d violations, %d known, %.0fs" % (
            prop, tier, len(events), distinct, len(violations), len(known), time.time() - t0))
        return 1 if violations else 0
    finally:
        shutil.rmtree(work, ignore_errors=True)
